// cfgx — case-script executor for libConfuse (see DESIGN.md 3.2).
// The only code that touches the library.  Interprets a line-oriented case script and writes an
// observation trace (one JSON object per executed line).  `cfgx --server` is a fork server.
#include <cerrno>
#include <cinttypes>
#include <climits>
#include <cmath>
#include <csignal>
#include <cstdarg>
#include <cstdint>
#include <cstdio>
#include <cstdlib>
#include <cstring>
#include <map>
#include <set>
#include <string>
#include <vector>
#include <dirent.h>
#include <fcntl.h>
#include <sys/mman.h>
#include <sys/resource.h>
#include <sys/stat.h>
#include <sys/time.h>
#include <sys/wait.h>
#include <unistd.h>

extern "C" {
#include "confuse.h"
#define VT_NO_MACROS
#include "vt_alloc.h"
extern void cfg_yylex_destroy(void);
extern int cfg_include_stack_ptr;
}

using std::string;
using std::vector;

// ------------------------------------------------------------------------------------------
// output
static int g_trace_fd = 1;
static string g_out;

static void flush_out()
{
	size_t off = 0;
	while (off < g_out.size()) {
		ssize_t n = write(g_trace_fd, g_out.data() + off, g_out.size() - off);
		if (n <= 0)
			break;
		off += (size_t)n;
	}
	g_out.clear();
}

static string hexs(const char *s, size_t n)
{
	static const char *d = "0123456789abcdef";
	string r;
	r.reserve(n * 2);
	for (size_t i = 0; i < n; i++) {
		unsigned char c = (unsigned char)s[i];
		r.push_back(d[c >> 4]);
		r.push_back(d[c & 15]);
	}
	return r;
}

static string jstr(const char *s)
{ // JSON value: hex string or null
	if (!s)
		return "null";
	return "\"" + hexs(s, strlen(s)) + "\"";
}

static string jbytes(const string &s) { return "\"" + hexs(s.data(), s.size()) + "\""; }

static string jnum(long long v)
{
	char b[32];
	snprintf(b, sizeof b, "%lld", v);
	return b;
}

static string jptr(const void *p)
{
	char b[32];
	snprintf(b, sizeof b, "%" PRIuPTR, (uintptr_t)p);
	return b;
}

static string jdbl(double d)
{ // as JSON string holding a C hex float (exact)
	char b[64];
	snprintf(b, sizeof b, "\"%a\"", d);
	return b;
}

// ------------------------------------------------------------------------------------------
// state
struct Handle {
	char kind; // 'c' cfg_t*, 'o' cfg_opt_t*, 0 = empty
	void *p;
};
static std::map<long, Handle> g_h;
static std::map<long, vector<void *>> g_schema_blocks; // every heap block of a declaration tree
static std::map<long, cfg_opt_t *> g_schema;
static std::map<long, vector<std::pair<void *, size_t>>> g_schema_sized;

struct Diag {
	string file;
	bool file_null;
	int line;
	string msg;
};
static vector<Diag> g_diag;
static vector<string> g_cblog; // JSON objects
static long g_cbseq = 0, g_cbfail = 0;
static std::set<void *> g_ptr_live;
static long g_ptr_made = 0, g_ptr_released = 0, g_double_release = 0;
static std::map<void *, std::set<string>> g_filters;
static int g_pending_errno = -1;
static vector<string> g_strkeep; // storage for strings returned by the string parse callback

static cfg_t *hcfg(long id)
{
	auto it = g_h.find(id);
	if (it == g_h.end() || it->second.kind != 'c')
		return NULL;
	return (cfg_t *)it->second.p;
}
static cfg_opt_t *hopt(long id)
{
	auto it = g_h.find(id);
	if (it == g_h.end() || it->second.kind != 'o')
		return NULL;
	return (cfg_opt_t *)it->second.p;
}

// ------------------------------------------------------------------------------------------
// callbacks
static void errfunc(cfg_t *cfg, const char *fmt, va_list ap)
{
	char buf[2048];
	vsnprintf(buf, sizeof buf, fmt, ap);
	Diag d;
	d.file_null = !(cfg && cfg->filename);
	d.file = d.file_null ? "" : cfg->filename;
	d.line = cfg ? cfg->line : -1;
	d.msg = buf;
	g_diag.push_back(d);
}

static string snap_opt(cfg_opt_t *opt, int depth);

static int cb_tick(const char *kind, cfg_opt_t *opt, const string &extra)
{
	g_cbseq++;
	string e = "{\"seq\":" + jnum(g_cbseq) + ",\"k\":\"" + kind + "\",\"opt\":" + jstr(opt ? opt->name : NULL) + extra + "}";
	g_cblog.push_back(e);
	return g_cbfail && g_cbseq == g_cbfail;
}

// the integer a value-parsing callback produces: a full long (beyond 32 bits and negative for tokens of some lengths);
// mirrored by pure_int() in pbt/model_lang.py
static long pure_int(const char *v)
{
	long n = (long)strlen(v), b0 = (unsigned char)v[0];
	long r = 7 * n + b0;
	if (n % 3 == 2)
		r += (b0 + 1) << 33;
	if (n % 5 == 4)
		r = -r;
	return r;
}

static int parse_cb(cfg_t *cfg, cfg_opt_t *opt, const char *value, void *result)
{
	int fail = cb_tick("parse", opt, ",\"arg\":" + jstr(value));
	if (fail || !value) {
		// a callback may have written to its result before it decides to refuse: the library must not have lent it the
		// live value for that
		if (fail && result) {
			if (opt->type == CFGT_INT)
				*(long *)result = -4242;
			else if (opt->type == CFGT_FLOAT)
				*(double *)result = -4242.5;
			else if (opt->type == CFGT_BOOL)
				*(cfg_bool_t *)result = (cfg_bool_t)7;
		}
		cfg_error(cfg, "vt: parse callback refuses value for '%s'", opt->name);
		return 1;
	}
	switch (opt->type) {
	case CFGT_INT:
		*(long *)result = pure_int(value);
		break;
	case CFGT_FLOAT:
		*(double *)result = (double)strlen(value) + 0.5;
		break;
	case CFGT_BOOL:
		*(cfg_bool_t *)result = (cfg_bool_t)(strlen(value) & 1);
		break;
	case CFGT_STR:
		if (!strcmp(value, "noresult"))
			return 0; // a callback that approves but hands back nothing: there is nothing to store
		g_strkeep.push_back(string("<") + value + ">");
		*(const char **)result = g_strkeep.back().c_str();
		break;
	case CFGT_PTR: {
		if (!opt->freecb) { // no release function registered: hand out storage the library never owns
			static char unowned[8] = "unowned";
			*(void **)result = unowned;
			break;
		}
		char *blk = (char *)malloc(strlen(value) + 1);
		strcpy(blk, value);
		g_ptr_live.insert(blk);
		g_ptr_made++;
		*(void **)result = blk;
		break;
	}
	default:
		return 1;
	}
	// what a callback leaves in errno is its own business (one that used strtol()/strtod() on its way may leave ERANGE
	// behind and still approve): only the return value is its verdict
	errno = (strlen(value) & 1) ? ERANGE : ((strlen(value) & 3) == 0 ? EINVAL : 0);
	return 0;
}

static void free_cb(void *p)
{
	auto it = g_ptr_live.find(p);
	if (it == g_ptr_live.end()) {
		g_double_release++;
		return;
	}
	g_ptr_live.erase(it);
	g_ptr_released++;
	free(p);
}

static cfg_t *hcfg(long id);
static void errfunc(cfg_t *cfg, const char *fmt, va_list ap);
static int valid_cb(cfg_t *cfg, cfg_opt_t *opt)
{
	string extra = ",\"snap\":" + snap_opt(opt, 0);
	// an option whose name starts with "nv" has a validation callback that parses a (valid) text into context 2
	if (opt->name[0] == 'n' && opt->name[1] == 'v') {
		cfg_t *other = hcfg(2);
		if (other && other != cfg) {
			size_t n0 = g_diag.size();
			int rc = cfg_parse_buf(other, "a = 7\n");
			g_diag.resize(n0);
			extra += ",\"nested_rc\":" + jnum(rc);
		}
	}
	int fail = cb_tick("valid", opt, extra);
	if (fail) {
		cfg_error(cfg, "vt: validation callback refuses '%s'", opt->name);
		return 1;
	}
	return 0;
}

// validcb2: veto value int 666 / float 666.0 / string "veto"; rewrite int 777 -> 778, float 777.0 -> 778.5
static int valid2_cb(cfg_t *cfg, cfg_opt_t *opt, void *value)
{
	string extra;
	int veto = 0;
	if (opt->type == CFGT_INT) {
		long *v = (long *)value;
		extra = ",\"arg\":" + jnum(*v);
		if (*v == 666)
			veto = 1;
		if (*v == 777)
			*v = 778;
	} else if (opt->type == CFGT_FLOAT) {
		double *v = (double *)value;
		extra = ",\"arg\":" + jdbl(*v);
		if (*v == 666.0)
			veto = 1;
		if (*v == 777.0)
			*v = 778.5;
	} else if (opt->type == CFGT_STR) {
		const char *v = (const char *)value;
		extra = ",\"arg\":" + jstr(v);
		if (v && !strcmp(v, "veto"))
			veto = 1;
	}
	int fail = cb_tick("valid2", opt, extra);
	(void)cfg;
	return veto || fail;
}

static int func_cb(cfg_t *cfg, cfg_opt_t *opt, int argc, const char **argv)
{
	string a = ",\"argv\":[";
	for (int i = 0; i < argc; i++)
		a += (i ? "," : "") + jstr(argv[i]);
	a += "]";
	int fail = cb_tick("func", opt, a);
	if (fail) {
		cfg_error(cfg, "vt: function '%s' fails", opt->name);
		return 1;
	}
	return 0;
}

// nest(handle, text): a function whose callback parses <text> into another live context while the outer parse is under way
static cfg_t *hcfg(long id);
static int nest_cb(cfg_t *cfg, cfg_opt_t *opt, int argc, const char **argv)
{
	string a = ",\"argv\":[";
	for (int i = 0; i < argc; i++)
		a += (i ? "," : "") + jstr(argv[i]);
	a += "]";
	cb_tick("func", opt, a);
	if (argc == 2) {
		cfg_t *other = hcfg(strtol(argv[0], NULL, 10));
		if (other && other != cfg) {
			size_t n0 = g_diag.size();
			cfg_parse_buf(other, argv[1]);
			g_diag.resize(n0); // what the other context reports is not a diagnostic of the outer parse
		}
	}
	return 0;
}

// nestfree(text): the callback creates a context of its own from schema 0, parses <text> into it and frees it again
static int nestfree_cb(cfg_t *cfg, cfg_opt_t *opt, int argc, const char **argv)
{
	string a = ",\"argv\":[";
	for (int i = 0; i < argc; i++)
		a += (i ? "," : "") + jstr(argv[i]);
	a += "]";
	cb_tick("func", opt, a);
	cfg_t *tmp = cfg_init(g_schema[0], CFGF_NONE);
	if (tmp) {
		size_t n0 = g_diag.size();
		cfg_set_error_function(tmp, errfunc);
		if (argc >= 1)
			cfg_parse_buf(tmp, argv[0]);
		cfg_free(tmp);
		g_diag.resize(n0);
	}
	return 0;
}

// adddir(dir): the callback adds a search directory to the context it is handed (the section it stands in)
static int adddir_cb(cfg_t *cfg, cfg_opt_t *opt, int argc, const char **argv)
{
	string a = ",\"argv\":[";
	for (int i = 0; i < argc; i++)
		a += (i ? "," : "") + jstr(argv[i]);
	a += "]";
	cb_tick("func", opt, a);
	if (argc == 1)
		cfg_add_searchpath(cfg, argv[0]);
	return 0;
}

static void print_cb(cfg_opt_t *opt, unsigned int index, FILE *fp) { fprintf(fp, "<%s:%u>", opt->name, index); }

static int filter_cb(cfg_t *cfg, cfg_opt_t *opt)
{
	auto it = g_filters.find((void *)cfg);
	if (it == g_filters.end())
		return 0;
	return it->second.count(opt->name) ? 1 : 0;
}

// eight distinct filter predicates, each with its own hide set (a predicate must not depend on the section it is
// called for, or inheritance could not be observed)
static std::set<string> g_fhide[8];
template <int K> static int filter_k(cfg_t *cfg, cfg_opt_t *opt)
{
	(void)cfg;
	return g_fhide[K].count(opt->name) ? 1 : 0;
}
static cfg_print_filter_func_t g_ffuncs[8] = {filter_k<0>, filter_k<1>, filter_k<2>, filter_k<3>,
					      filter_k<4>, filter_k<5>, filter_k<6>, filter_k<7>};

// ------------------------------------------------------------------------------------------
// dump through public getters (+ the two public flag bits / struct fields of cfg_opt_t)
static string dump_cfg(cfg_t *cfg, int depth);

static string snap_opt(cfg_opt_t *opt, int depth)
{
	if (!opt)
		return "null";
	string r = "{\"n\":" + jstr(cfg_opt_name(opt)) + ",\"t\":" + jnum(opt->type) + ",\"f\":" + jnum(opt->flags) +
		   ",\"c\":" + jstr(cfg_opt_getcomment(opt)) + ",\"v\":[";
	unsigned int n = cfg_opt_size(opt);
	bool simple = opt->simple_value.ptr && opt->type != CFGT_SEC;
	if (simple) {
		// the value lives in the application's variable; the getters must return exactly that
		bool ok = n == 0;
		switch (opt->type) {
		case CFGT_INT:
			ok = ok && cfg_opt_getnint(opt, 0) == *opt->simple_value.number;
			break;
		case CFGT_FLOAT: {
			double a = cfg_opt_getnfloat(opt, 0), b = *opt->simple_value.fpnumber;
			ok = ok && !memcmp(&a, &b, sizeof a);
			break;
		}
		case CFGT_BOOL:
			ok = ok && cfg_opt_getnbool(opt, 0) == *opt->simple_value.boolean;
			break;
		case CFGT_STR:
			ok = ok && cfg_opt_getnstr(opt, 0) == *opt->simple_value.string;
			break;
		default:
			break;
		}
		if (!ok) {
			fprintf(stderr, "VT-ACCESSOR-MISMATCH: simple option '%s': getter differs from the application's variable (size %u)\n",
				opt->name, n);
			abort();
		}
		n = 1;
	}
	for (unsigned int i = 0; i < n; i++) {
		if (i)
			r += ",";
		switch (opt->type) {
		case CFGT_INT:
			r += jnum(cfg_opt_getnint(opt, i));
			break;
		case CFGT_FLOAT:
			r += jdbl(cfg_opt_getnfloat(opt, i));
			break;
		case CFGT_BOOL:
			r += jnum(cfg_opt_getnbool(opt, i));
			break;
		case CFGT_STR:
			r += jstr(cfg_opt_getnstr(opt, i));
			break;
		case CFGT_SEC:
			if (depth > 200)
				r += "\"deep\"";
			else
				r += dump_cfg(cfg_opt_getnsec(opt, i), depth + 1);
			break;
		case CFGT_PTR: {
			void *p = cfg_opt_getnptr(opt, i);
			if (p && (g_ptr_live.count(p) || !opt->freecb))
				r += jstr((const char *)p);
			else if (p)
				r += "\"dead\"";
			else
				r += "null";
			break;
		}
		default:
			r += "null";
		}
	}
	r += simple ? "],\"simple\":1}" : "]}";
	return r;
}

static string dump_cfg(cfg_t *cfg, int depth)
{
	if (!cfg)
		return "null";
	string r = "{\"name\":" + jstr(cfg_name(cfg)) + ",\"title\":" + jstr(cfg_title(cfg)) + ",\"opts\":[";
	unsigned int n = cfg_num(cfg);
	for (unsigned int i = 0; i < n; i++) {
		if (i)
			r += ",";
		cfg_opt_t *opt = cfg_getnopt(cfg, i);
		r += snap_opt(opt, depth);
		// the by-name convenience accessors must agree with the by-pointer ones (exercised on every dump)
		const char *nm = cfg_opt_name(opt);
		// (the cross-check's own lookups must neither consume nor be hit by an injected allocation failure)
		long saved_fail_at = vt_fail_at, saved_requests = vt_requests;
		vt_fail_at = 0;
		if (nm && nm[0] && !strpbrk(nm, "|=") && cfg_getopt(cfg, nm) == opt) {
			unsigned int sz = cfg_opt_size(opt), last = sz ? sz - 1 : 0;
			bool ok = cfg_size(cfg, nm) == sz && cfg_getcomment(cfg, nm) == cfg_opt_getcomment(opt);
			switch (opt->type) {
			case CFGT_INT:
				ok = ok && cfg_getint(cfg, nm) == cfg_opt_getnint(opt, 0) && cfg_getnint(cfg, nm, last) == cfg_opt_getnint(opt, last);
				break;
			case CFGT_FLOAT: {
				double a = cfg_getfloat(cfg, nm), b = cfg_opt_getnfloat(opt, 0), c2 = cfg_getnfloat(cfg, nm, last), d2 = cfg_opt_getnfloat(opt, last);
				ok = ok && !memcmp(&a, &b, sizeof a) && !memcmp(&c2, &d2, sizeof c2);
				break;
			}
			case CFGT_BOOL:
				ok = ok && cfg_getbool(cfg, nm) == cfg_opt_getnbool(opt, 0) && cfg_getnbool(cfg, nm, last) == cfg_opt_getnbool(opt, last);
				break;
			case CFGT_STR:
				ok = ok && cfg_getstr(cfg, nm) == cfg_opt_getnstr(opt, 0) && cfg_getnstr(cfg, nm, last) == cfg_opt_getnstr(opt, last) &&
				     cfg_opt_getstr(opt) == cfg_opt_getnstr(opt, 0);
				break;
			case CFGT_PTR:
				ok = ok && cfg_getptr(cfg, nm) == cfg_opt_getnptr(opt, 0) && cfg_getnptr(cfg, nm, last) == cfg_opt_getnptr(opt, last);
				break;
			case CFGT_SEC:
				ok = ok && cfg_getnsec(cfg, nm, last) == cfg_opt_getnsec(opt, last) && (sz == 0 || cfg_getsec(cfg, nm) == cfg_opt_getnsec(opt, 0));
				break;
			default:
				break;
			}
			if (!ok) {
				dprintf(2, "VT-ACCESSOR-MISMATCH: by-name accessor disagrees with by-pointer accessor for option '%s'\n", nm);
				abort();
			}
		}
		vt_fail_at = saved_fail_at;
		vt_requests = saved_requests;
	}
	r += "]}";
	return r;
}

// ------------------------------------------------------------------------------------------
// argument decoding
struct Arg {
	bool null = false;
	string s;
};

static int hv(char c)
{
	if (c >= '0' && c <= '9')
		return c - '0';
	if (c >= 'a' && c <= 'f')
		return c - 'a' + 10;
	if (c >= 'A' && c <= 'F')
		return c - 'A' + 10;
	return -1;
}

static string unhex(const char *p, size_t n)
{
	string r;
	r.reserve(n / 2);
	for (size_t i = 0; i + 1 < n; i += 2)
		r.push_back((char)(hv(p[i]) * 16 + hv(p[i + 1])));
	return r;
}

// forms: ~ | x<hex> | r<n>*<hex> | parts joined by '+'
static Arg decode(const string &t)
{
	Arg a;
	if (t == "~") {
		a.null = true;
		return a;
	}
	size_t pos = 0;
	while (pos < t.size()) {
		size_t end = t.find('+', pos);
		if (end == string::npos)
			end = t.size();
		if (t[pos] == 'x') {
			a.s += unhex(t.data() + pos + 1, end - pos - 1);
		} else if (t[pos] == 'r') {
			size_t star = t.find('*', pos);
			long n = strtol(t.c_str() + pos + 1, NULL, 10);
			string piece = unhex(t.data() + star + 1, end - star - 1);
			for (long i = 0; i < n; i++)
				a.s += piece;
		} else {
			a.s += t.substr(pos, end - pos); // plain token
		}
		pos = end + 1;
	}
	return a;
}

static const char *cs(const Arg &a) { return a.null ? NULL : a.s.c_str(); }

// ------------------------------------------------------------------------------------------
// schema construction on the heap (so that it can be poisoned and released)
static void *sblock(long sid, size_t n)
{
	void *p = calloc(1, n ? n : 1);
	g_schema_blocks[sid].push_back(p);
	g_schema_sized[sid].push_back({p, n});
	return p;
}
static char *sstr(long sid, const Arg &a)
{
	if (a.null)
		return NULL;
	char *p = (char *)sblock(sid, a.s.size() + 1);
	memcpy(p, a.s.c_str(), a.s.size() + 1);
	return p;
}

// "simple" options (CFG_SIMPLE_*): the value lives in a variable of the application.  Flag bit 1<<24 in a schema
// line asks for one; the variable is initialised from the line's default, strings are owned by the "application"
// (this executor) as the documentation prescribes: malloc()'ed or NULL, released by the application.
#define VT_SIMPLE_FLAG (1 << 24)
struct SimpleSlot {
	cfg_type_t type;
	void *var; // 8 bytes of storage
	Arg def;
};
static std::map<long, vector<SimpleSlot>> g_simple;
static void simple_init(SimpleSlot &sl)
{
	switch (sl.type) {
	case CFGT_INT:
		*(long *)sl.var = strtol(sl.def.s.c_str(), NULL, 0);
		break;
	case CFGT_FLOAT:
		*(double *)sl.var = strtod(sl.def.s.c_str(), NULL);
		break;
	case CFGT_BOOL:
		*(cfg_bool_t *)sl.var = (cfg_bool_t)strtol(sl.def.s.c_str(), NULL, 0);
		break;
	case CFGT_STR:
		*(char **)sl.var = sl.def.null ? NULL : vt_strdup(sl.def.s.c_str(), "application", 0, 0);
		break;
	default:
		break;
	}
}
static void simple_release(long sid, bool reinit)
{
	for (auto &sl : g_simple[sid]) {
		if (sl.type == CFGT_STR) {
			vt_free(*(char **)sl.var);
			*(char **)sl.var = NULL;
		}
		if (reinit)
			simple_init(sl);
	}
	if (!reinit)
		g_simple[sid].clear();
}
static long simple_live_strings()
{
	long n = 0;
	for (auto &kv : g_simple)
		for (auto &sl : kv.second)
			if (sl.type == CFGT_STR && *(char **)sl.var)
				n++;
	return n;
}

static vector<vector<string>> g_lines; // tokenised script
static size_t g_pc = 0;

static cfg_opt_t *build_opts(long sid)
{
	vector<cfg_opt_t> v;
	while (g_pc < g_lines.size()) {
		vector<string> &t = g_lines[g_pc++];
		if (t.empty())
			continue;
		if (t[0] == "e" || t[0] == "end")
			break;
		cfg_opt_t o;
		memset(&o, 0, sizeof o);
		if (t[0] == "o" && t.size() >= 6) {
			char ty = t[1][0];
			long rawflags = strtol(t[2].c_str(), NULL, 0);
			bool simple = rawflags & VT_SIMPLE_FLAG;
			o.flags = (cfg_flag_t)(rawflags & ~VT_SIMPLE_FLAG);
			o.name = sstr(sid, decode(t[3]));
			Arg def = decode(t[4]);
			long cb = strtol(t[5].c_str(), NULL, 0);
			bool list = o.flags & CFGF_LIST;
			if (simple && !list && strchr("ifbs", ty)) {
				SimpleSlot sl;
				sl.type = ty == 'i' ? CFGT_INT : ty == 'f' ? CFGT_FLOAT : ty == 'b' ? CFGT_BOOL : CFGT_STR;
				sl.var = sblock(sid, sizeof(cfg_value_t));
				sl.def = def;
				simple_init(sl);
				g_simple[sid].push_back(sl);
				o.type = sl.type;
				o.simple_value.ptr = (void **)sl.var;
				if (cb & 8)
					o.pf = print_cb;
				v.push_back(o);
				continue;
			}
			switch (ty) {
			case 'i':
				o.type = CFGT_INT;
				if (list)
					o.def.parsed = sstr(sid, def);
				else
					o.def.number = strtol(def.s.c_str(), NULL, 0);
				break;
			case 'f':
				o.type = CFGT_FLOAT;
				if (list)
					o.def.parsed = sstr(sid, def);
				else
					o.def.fpnumber = strtod(def.s.c_str(), NULL);
				break;
			case 'b':
				o.type = CFGT_BOOL;
				if (list)
					o.def.parsed = sstr(sid, def);
				else
					o.def.boolean = (cfg_bool_t)strtol(def.s.c_str(), NULL, 0);
				break;
			case 's':
				o.type = CFGT_STR;
				if (list)
					o.def.parsed = sstr(sid, def);
				else
					o.def.string = sstr(sid, def);
				break;
			case 'p':
				o.type = CFGT_PTR;
				o.def.parsed = sstr(sid, def);
				break;
			case 'F':
				o.type = CFGT_FUNC;
				o.func = (def.s == "1") ? cfg_include : (def.s == "2") ? nest_cb : (def.s == "3") ? nestfree_cb : (def.s == "4") ? adddir_cb : func_cb;
				break;
			}
			if (cb & 1)
				o.parsecb = parse_cb;
			if (cb & 2)
				o.validcb = valid_cb;
			if (cb & 4)
				o.validcb2 = valid2_cb;
			if (cb & 8)
				o.pf = print_cb;
			if (cb & 16)
				o.freecb = free_cb;
			if (cb & 32)
				o.comment = sstr(sid, decode("x64656661756c7420616e6e6f746174696f6e")); // "default annotation"
		} else if (t[0] == "S" && t.size() >= 5) {
			o.type = CFGT_SEC;
			o.flags = (cfg_flag_t)strtol(t[1].c_str(), NULL, 0);
			o.name = sstr(sid, decode(t[2]));
			long cb = strtol(t[3].c_str(), NULL, 0);
			if (cb & 2)
				o.validcb = valid_cb;
			if (t[4] == "1")
				o.subopts = build_opts(sid);
		} else {
			continue;
		}
		v.push_back(o);
	}
	cfg_opt_t *arr = (cfg_opt_t *)sblock(sid, sizeof(cfg_opt_t) * (v.size() + 1));
	for (size_t i = 0; i < v.size(); i++)
		arr[i] = v[i];
	return arr; // last entry zeroed = CFG_END()
}

// ------------------------------------------------------------------------------------------
static int count_fds()
{
	int n = 0;
	DIR *d = opendir("/proc/self/fd");
	if (!d)
		return -1;
	while (readdir(d))
		n++;
	closedir(d);
	return n - 3; // ".", "..", and the directory's own descriptor
}

static string diag_json()
{
	string r = "[";
	for (size_t i = 0; i < g_diag.size(); i++) {
		if (i)
			r += ",";
		r += "[" + (g_diag[i].file_null ? string("null") : jbytes(g_diag[i].file)) + "," + jnum(g_diag[i].line) + "," +
		     jbytes(g_diag[i].msg) + "]";
	}
	return r + "]";
}

static string cb_json()
{
	string r = "[";
	for (size_t i = 0; i < g_cblog.size(); i++)
		r += (i ? "," : "") + g_cblog[i];
	return r + "]";
}

static int g_last_errno = 0;
static void apply_errno()
{
	// errno is carried from one library call to the next, as in a real program (the executor's own activity in between
	// must not disturb it); the `errno N` command overrides it once
	if (g_pending_errno >= 0) {
		errno = g_pending_errno;
		g_pending_errno = -1;
	} else {
		errno = g_last_errno;
	}
}

static string print_to_string(int mode, cfg_t *cfg, cfg_opt_t *opt, int indent, int *rc)
{
	char *buf = NULL;
	size_t len = 0;
	FILE *fp = open_memstream(&buf, &len);
	int r = 0;
	switch (mode) {
	case 0:
		r = cfg_print(cfg, fp);
		break;
	case 1:
		r = cfg_print_indent(cfg, fp, indent);
		break;
	case 2:
		r = cfg_opt_print(opt, fp);
		break;
	case 3:
		r = cfg_opt_print_indent(opt, fp, indent);
		break;
	case 4:
		r = cfg_opt_nprint_var(opt, (unsigned)indent, fp);
		break;
	}
	fclose(fp);
	string s(buf ? buf : "", len);
	free(buf);
	*rc = r;
	return s;
}

static void free_all()
{
	for (auto &kv : g_h)
		if (kv.second.kind == 'c' && kv.second.p) {
			cfg_t *c = (cfg_t *)kv.second.p;
			if (c->name && !strcmp(c->name, "root") && (kv.first < 1000000))
				; // roots are freed explicitly by scripts; leftovers are ignored here
		}
}

// run the whole script
static void run_script(const string &script)
{
	// tokenise
	g_lines.clear();
	size_t pos = 0;
	while (pos < script.size()) {
		size_t nl = script.find('\n', pos);
		if (nl == string::npos)
			nl = script.size();
		vector<string> toks;
		size_t p = pos;
		while (p < nl) {
			while (p < nl && script[p] == ' ')
				p++;
			size_t q = p;
			while (q < nl && script[q] != ' ')
				q++;
			if (q > p)
				toks.push_back(script.substr(p, q - p));
			p = q;
		}
		g_lines.push_back(toks);
		pos = nl + 1;
	}
	std::set<long> roots; // handle ids that are root contexts

	for (g_pc = 0; g_pc < g_lines.size();) {
		size_t lineno = g_pc;
		vector<string> &t = g_lines[g_pc++];
		if (t.empty() || t[0][0] == '#')
			continue;
		const string &c = t[0];
		auto A = [&](size_t i) -> Arg { return i < t.size() ? decode(t[i]) : Arg(); };
		auto N = [&](size_t i) -> long { return i < t.size() ? strtol(t[i].c_str(), NULL, 0) : 0; };
		g_diag.clear();
		g_cblog.clear();
		string o = "{\"i\":" + jnum((long long)lineno) + ",\"c\":\"" + c + "\"";
		bool api = true;
		int saved_errno = 0;
		bool fail_seen_before = vt_fail_site[0] != 0;

		static const std::set<string> cfg_cmds = {"free", "errfunc", "searchpath", "parse_buf", "parse_fp", "parse_fp_fail", "parse_file", "setint",
			"setfloat", "setbool", "setstr", "setstr_self", "setlist_self", "setlist", "addlist", "setmulti", "osetmulti", "setopt", "setcomment", "addtsec",
			"rmsec", "rmnsec", "rmtsec", "getopt", "getnopt", "getsec", "getnsec", "gettsec", "size", "getint", "getfloat",
			"getbool", "getstr", "getcomment", "title", "setvalidate", "setvalidate2", "printfunc", "filter", "filterk", "dump", "print", "roundtrip",
			"findfile"};
		static const std::set<string> opt_cmds = {"osetint", "osetfloat", "osetbool", "osetstr", "osetcomment", "ormnsec", "ormtsec",
			"ogetnsec", "ogettsec", "oprintfunc", "odump", "oprint", "nprintvar"};
		if ((cfg_cmds.count(c) && !hcfg(N(1))) || (opt_cmds.count(c) && !hopt(N(1))) ||
		    ((c == "setopt" || c == "osetmulti") && !hopt(N(2)))) {
			g_out += o + ",\"skipped\":1}\n";
			flush_out();
			continue;
		}
		if (c == "schema") {
			long sid = N(1);
			simple_release(sid, false);
			g_schema[sid] = build_opts(sid);
			api = false;
		} else if (c == "poison") {
			long sid = N(1);
			simple_release(sid, false);
			for (auto &b : g_schema_sized[sid])
				memset(b.first, 0xA5, b.second);
			for (void *b : g_schema_blocks[sid])
				free(b);
			g_schema_blocks[sid].clear();
			g_schema_sized[sid].clear();
			g_schema[sid] = NULL;
			api = false;
		} else if (c == "stacklimit") {
			// lower the stack limit of this child: stack use proportional to the input then shows at moderate sizes
			struct rlimit rl;
			getrlimit(RLIMIT_STACK, &rl);
			rl.rlim_cur = (rlim_t)N(1);
			o += ",\"rc\":" + jnum(setrlimit(RLIMIT_STACK, &rl));
			api = false;
		} else if (c == "schemasum") {
			// checksum over the caller's declaration memory (every block of schema <sid>): the library must not write there
			long sid = N(1);
			unsigned long long h = 1469598103934665603ULL;
			for (auto &b : g_schema_sized[sid])
				for (size_t k = 0; k < b.second; k++)
					h = (h ^ ((unsigned char *)b.first)[k]) * 1099511628211ULL;
			o += ",\"sum\":\"" + std::to_string(h) + "\"";
			api = false;
		} else if (c == "env") {
			Arg n = A(1), v = A(2);
			if (v.null)
				unsetenv(n.s.c_str());
			else
				setenv(n.s.c_str(), v.s.c_str(), 1);
			api = false;
		} else if (c == "errno") {
			g_pending_errno = (int)N(1);
			continue;
		} else if (c == "mkdir") {
			o += ",\"rc\":" + jnum(mkdir(A(1).s.c_str(), 0777));
			api = false;
		} else if (c == "symlink") {
			o += ",\"rc\":" + jnum(symlink(A(1).s.c_str(), A(2).s.c_str()));
			api = false;
		} else if (c == "mkfile") {
			Arg p = A(1), d = A(2);
			FILE *f = fopen(p.s.c_str(), "wb");
			if (f) {
				fwrite(d.s.data(), 1, d.s.size(), f);
				fclose(f);
			}
			o += ",\"rc\":" + jnum(f ? 0 : -1);
			api = false;
		} else if (c == "chmod") {
			o += ",\"rc\":" + jnum(chmod(A(1).s.c_str(), (mode_t)N(2)));
			api = false;
		} else if (c == "cwd") {
			o += ",\"rc\":" + jnum(chdir(A(1).s.c_str()));
			api = false;
		} else if (c == "fill") {
			vt_fill_byte = (int)N(1);
			api = false;
		} else if (c == "failalloc") {
			vt_requests = 0;
			vt_fail_at = N(1);
			vt_fail_site[0] = 0;
			api = false;
		} else if (c == "allocstat") {
			o += ",\"live\":" + jnum(vt_live_blocks - simple_live_strings()) + ",\"streams\":" + jnum(vt_live_streams) + ",\"req\":" + jnum(vt_requests) +
			     ",\"failsite\":\"" + string(vt_fail_site) + "\",\"ptr_live\":" + jnum((long long)g_ptr_live.size()) +
			     ",\"ptr_made\":" + jnum(g_ptr_made) + ",\"ptr_released\":" + jnum(g_ptr_released) + ",\"double_release\":" +
			     jnum(g_double_release) + ",\"fds\":" + jnum(count_fds()) + ",\"incptr\":" + jnum(cfg_include_stack_ptr);
			api = false;
		} else if (c == "cbfail") {
			g_cbseq = 0;
			g_cbfail = N(1);
			api = false;
		} else if (c == "lexreset") {
			cfg_yylex_destroy();
			cfg_include_stack_ptr = 0;
			api = false;
		} else if (c == "newcase") {
			// batch separator: release every root context, reset the scanner and all executor state
			for (long id : roots) {
				cfg_t *r = hcfg(id);
				if (r)
					cfg_free(r);
			}
			roots.clear();
			g_h.clear();
			g_filters.clear();
			cfg_yylex_destroy();
			cfg_include_stack_ptr = 0;
			g_cbseq = g_cbfail = 0;
			g_last_errno = 0;
			vt_fail_at = 0;
			for (auto &kv : g_simple)
				simple_release(kv.first, true);
			api = false;
		} else if (c == "init") {
			long h = N(1), sid = N(2);
			cfg_flag_t fl = (cfg_flag_t)N(3);
			apply_errno();
			cfg_t *cfg = cfg_init(g_schema[sid], fl);
			saved_errno = errno;
			if (cfg && !(t.size() > 4 && t[4] == "noerr"))
				cfg_set_error_function(cfg, errfunc);
			g_h[h] = Handle{'c', cfg};
			if (cfg)
				roots.insert(h);
			o += ",\"ok\":" + jnum(cfg != NULL);
		} else if (c == "free") {
			long h = N(1);
			cfg_t *cfg = hcfg(h);
			apply_errno();
			int rc = cfg_free(cfg);
			saved_errno = errno;
			g_h.erase(h);
			roots.erase(h);
			g_filters.erase((void *)cfg);
			o += ",\"rc\":" + jnum(rc);
		} else if (c == "errfunc") {
			cfg_set_error_function(hcfg(N(1)), N(2) ? errfunc : NULL);
		} else if (c == "searchpath") {
			Arg d = A(2);
			apply_errno();
			int rc = cfg_add_searchpath(hcfg(N(1)), cs(d));
			saved_errno = errno;
			o += ",\"rc\":" + jnum(rc);
		} else if (c == "parse_buf") {
			Arg s = A(2);
			cfg_t *cfg = hcfg(N(1));
			apply_errno();
			int rc = cfg_parse_buf(cfg, cs(s));
			saved_errno = errno;
			o += ",\"rc\":" + jnum(rc) + ",\"line\":" + jnum(cfg ? cfg->line : -1);
		} else if (c == "parse_fp") {
			Arg s = A(2);
			cfg_t *cfg = hcfg(N(1));
			FILE *fp = tmpfile();
			fwrite(s.s.data(), 1, s.s.size(), fp);
			rewind(fp);
			apply_errno();
			int rc = cfg_parse_fp(cfg, fp);
			saved_errno = errno;
			fclose(fp);
			o += ",\"rc\":" + jnum(rc) + ",\"line\":" + jnum(cfg ? cfg->line : -1);
		} else if (c == "parse_fp_fail") {
			// parse_fp_fail h text n : stream that delivers the first n bytes of text and then fails with EIO
			Arg s = A(2);
			cfg_t *cfg = hcfg(N(1));
			struct Cookie { const char *p; size_t left; };
			Cookie ck = {s.s.data(), (size_t)N(3) < s.s.size() ? (size_t)N(3) : s.s.size()};
			cookie_io_functions_t io = {};
			io.read = [](void *c, char *buf, size_t n) -> ssize_t {
				Cookie *k = (Cookie *)c;
				if (!k->left) {
					errno = EIO;
					return -1;
				}
				if (n > k->left)
					n = k->left;
				memcpy(buf, k->p, n);
				k->p += n;
				k->left -= n;
				return (ssize_t)n;
			};
			FILE *fp = fopencookie(&ck, "r", io);
			apply_errno();
			int rc = cfg_parse_fp(cfg, fp);
			saved_errno = errno;
			fclose(fp);
			o += ",\"rc\":" + jnum(rc) + ",\"line\":" + jnum(cfg ? cfg->line : -1);
		} else if (c == "mkfifo") {
			o += ",\"rc\":" + jnum(mkfifo(A(1).s.c_str(), 0666));
			api = false;
		} else if (c == "parse_file") {
			Arg s = A(2);
			cfg_t *cfg = hcfg(N(1));
			apply_errno();
			int rc = cfg_parse(cfg, cs(s));
			saved_errno = errno;
			o += ",\"rc\":" + jnum(rc) + ",\"line\":" + jnum(cfg ? cfg->line : -1) + ",\"filename\":" + jstr(cfg ? cfg->filename : NULL);
		} else if (c == "setint" || c == "setfloat" || c == "setbool" || c == "setstr") {
			cfg_t *cfg = hcfg(N(1));
			Arg path = A(2);
			unsigned idx = (unsigned)N(3);
			Arg v = A(4);
			int rc;
			apply_errno();
			static unsigned alt = 0;
			bool conv = idx == 0 && (alt++ & 1); // every other index-0 call goes through the convenience wrapper
			if (t.size() > 5 && idx == 0)            // ... unless the script says which form to use: w(rapper) / n (indexed)
				conv = t[5] == "w";
			if (c == "setint")
				rc = conv ? cfg_setint(cfg, cs(path), strtol(v.s.c_str(), NULL, 0)) : cfg_setnint(cfg, cs(path), strtol(v.s.c_str(), NULL, 0), idx);
			else if (c == "setfloat")
				rc = conv ? cfg_setfloat(cfg, cs(path), strtod(v.s.c_str(), NULL)) : cfg_setnfloat(cfg, cs(path), strtod(v.s.c_str(), NULL), idx);
			else if (c == "setbool")
				rc = conv ? cfg_setbool(cfg, cs(path), (cfg_bool_t)strtol(v.s.c_str(), NULL, 0))
					  : cfg_setnbool(cfg, cs(path), (cfg_bool_t)strtol(v.s.c_str(), NULL, 0), idx);
			else
				rc = conv ? cfg_setstr(cfg, cs(path), cs(v)) : cfg_setnstr(cfg, cs(path), cs(v), idx);
			saved_errno = errno;
			o += ",\"rc\":" + jnum(rc);
		} else if (c == "setlist_self") {
			// setlist_self h path idx : replace the list by a single element, its own element <idx> (as handed out by the getter)
			cfg_t *cfg = hcfg(N(1));
			Arg path = A(2);
			apply_errno();
			const char *cur = cfg_getnstr(cfg, cs(path), (unsigned)N(3));
			int rc = cfg_setlist(cfg, cs(path), 1, cur);
			saved_errno = errno;
			o += ",\"rc\":" + jnum(rc);
		} else if (c == "setstr_self") {
			// setstr_self h path src dst : store the option's own element <src> (as handed out by the getter) at <dst>
			cfg_t *cfg = hcfg(N(1));
			Arg path = A(2);
			apply_errno();
			const char *cur = cfg_getnstr(cfg, cs(path), (unsigned)N(3));
			int rc = cfg_setnstr(cfg, cs(path), cur, (unsigned)N(4));
			saved_errno = errno;
			o += ",\"rc\":" + jnum(rc);
		} else if (c == "osetint" || c == "osetfloat" || c == "osetbool" || c == "osetstr") {
			cfg_opt_t *opt = hopt(N(1));
			unsigned idx = (unsigned)N(2);
			Arg v = A(3);
			int rc;
			apply_errno();
			if (c == "osetint")
				rc = cfg_opt_setnint(opt, strtol(v.s.c_str(), NULL, 0), idx);
			else if (c == "osetfloat")
				rc = cfg_opt_setnfloat(opt, strtod(v.s.c_str(), NULL), idx);
			else if (c == "osetbool")
				rc = cfg_opt_setnbool(opt, (cfg_bool_t)strtol(v.s.c_str(), NULL, 0), idx);
			else
				rc = cfg_opt_setnstr(opt, cs(v), idx);
			saved_errno = errno;
			o += ",\"rc\":" + jnum(rc);
		} else if (c == "setlist" || c == "addlist") {
			// setlist h path type n v...
			cfg_t *cfg = hcfg(N(1));
			Arg path = A(2);
			char ty = t.size() > 3 ? t[3][0] : 'i';
			unsigned n = (unsigned)N(4);
			int rc = -2;
			bool add = c == "addlist";
			Arg v[4];
			for (unsigned k = 0; k < 4 && k < n; k++)
				v[k] = A(5 + k);
			apply_errno();
#define CALLL(a0, a1, a2, a3)                                                                                      \
	(add ? cfg_addlist(cfg, cs(path), n, a0, a1, a2, a3) : cfg_setlist(cfg, cs(path), n, a0, a1, a2, a3))
			if (ty == 'i') {
				int x[4];
				for (int k = 0; k < 4; k++)
					x[k] = (int)strtol(v[k].s.c_str(), NULL, 0);
				rc = CALLL(x[0], x[1], x[2], x[3]);
			} else if (ty == 'f') {
				double x[4];
				for (int k = 0; k < 4; k++)
					x[k] = strtod(v[k].s.c_str(), NULL);
				rc = CALLL(x[0], x[1], x[2], x[3]);
			} else if (ty == 'b') {
				cfg_bool_t x[4];
				for (int k = 0; k < 4; k++)
					x[k] = (cfg_bool_t)strtol(v[k].s.c_str(), NULL, 0);
				rc = CALLL(x[0], x[1], x[2], x[3]);
			} else {
				const char *x[4];
				for (int k = 0; k < 4; k++)
					x[k] = cs(v[k]);
				rc = CALLL(x[0], x[1], x[2], x[3]);
			}
			saved_errno = errno;
			o += ",\"rc\":" + jnum(rc);
		} else if (c == "setmulti" || c == "osetmulti") {
			// setmulti h path n v...   |  osetmulti h oh n v...
			cfg_t *cfg = hcfg(N(1));
			unsigned n = (unsigned)N(3);
			vector<Arg> vals;
			vector<char *> ptrs;
			for (unsigned k = 0; k < n; k++)
				vals.push_back(A(4 + k));
			for (unsigned k = 0; k < n; k++)
				ptrs.push_back((char *)cs(vals[k]));
			ptrs.push_back(NULL);
			int rc;
			apply_errno();
			if (c == "setmulti") {
				Arg path = A(2);
				rc = cfg_setmulti(cfg, cs(path), n, ptrs.data());
			} else {
				rc = cfg_opt_setmulti(cfg, hopt(N(2)), n, ptrs.data());
			}
			saved_errno = errno;
			o += ",\"rc\":" + jnum(rc);
		} else if (c == "setopt") {
			cfg_t *cfg = hcfg(N(1));
			cfg_opt_t *opt = hopt(N(2));
			Arg v = A(3);
			apply_errno();
			cfg_value_t *val = cfg_setopt(cfg, opt, cs(v));
			saved_errno = errno;
			o += ",\"ok\":" + jnum(val != NULL);
		} else if (c == "setcomment") {
			Arg path = A(2), v = A(3);
			apply_errno();
			int rc = cfg_setcomment(hcfg(N(1)), cs(path), (char *)cs(v));
			saved_errno = errno;
			o += ",\"rc\":" + jnum(rc);
		} else if (c == "osetcomment") {
			Arg v = A(2);
			apply_errno();
			int rc = cfg_opt_setcomment(hopt(N(1)), (char *)cs(v));
			saved_errno = errno;
			o += ",\"rc\":" + jnum(rc);
		} else if (c == "addtsec") {
			Arg path = A(2), title = A(3);
			apply_errno();
			cfg_t *sec = cfg_addtsec(hcfg(N(1)), cs(path), cs(title));
			saved_errno = errno;
			if (t.size() > 4)
				g_h[N(4)] = Handle{'c', sec};
			o += ",\"p\":" + jptr(sec);
		} else if (c == "rmsec") {
			Arg path = A(2);
			apply_errno();
			int rc = cfg_rmsec(hcfg(N(1)), cs(path));
			saved_errno = errno;
			o += ",\"rc\":" + jnum(rc);
		} else if (c == "rmnsec") {
			Arg path = A(2);
			apply_errno();
			int rc = cfg_rmnsec(hcfg(N(1)), cs(path), (unsigned)N(3));
			saved_errno = errno;
			o += ",\"rc\":" + jnum(rc);
		} else if (c == "rmtsec") {
			Arg path = A(2), title = A(3);
			apply_errno();
			int rc = cfg_rmtsec(hcfg(N(1)), cs(path), cs(title));
			saved_errno = errno;
			o += ",\"rc\":" + jnum(rc);
		} else if (c == "ormnsec") {
			apply_errno();
			int rc = cfg_opt_rmnsec(hopt(N(1)), (unsigned)N(2));
			saved_errno = errno;
			o += ",\"rc\":" + jnum(rc);
		} else if (c == "ormtsec") {
			Arg title = A(2);
			apply_errno();
			int rc = cfg_opt_rmtsec(hopt(N(1)), cs(title));
			saved_errno = errno;
			o += ",\"rc\":" + jnum(rc);
		} else if (c == "getopt") {
			Arg path = A(2);
			apply_errno();
			cfg_opt_t *opt = cfg_getopt(hcfg(N(1)), cs(path));
			saved_errno = errno;
			if (t.size() > 3)
				g_h[N(3)] = Handle{'o', opt};
			o += ",\"p\":" + jptr(opt);
		} else if (c == "getnopt") {
			cfg_opt_t *opt = cfg_getnopt(hcfg(N(1)), (unsigned)N(2));
			if (t.size() > 3)
				g_h[N(3)] = Handle{'o', opt};
			o += ",\"p\":" + jptr(opt) + ",\"name\":" + jstr(cfg_opt_name(opt));
		} else if (c == "getsec") {
			Arg path = A(2);
			apply_errno();
			cfg_t *sec = cfg_getsec(hcfg(N(1)), cs(path));
			saved_errno = errno;
			if (t.size() > 3)
				g_h[N(3)] = Handle{'c', sec};
			o += ",\"p\":" + jptr(sec);
		} else if (c == "getnsec") {
			Arg path = A(2);
			apply_errno();
			cfg_t *sec = cfg_getnsec(hcfg(N(1)), cs(path), (unsigned)N(3));
			saved_errno = errno;
			if (t.size() > 4)
				g_h[N(4)] = Handle{'c', sec};
			o += ",\"p\":" + jptr(sec);
		} else if (c == "gettsec") {
			Arg path = A(2), title = A(3);
			apply_errno();
			cfg_t *sec = cfg_gettsec(hcfg(N(1)), cs(path), cs(title));
			saved_errno = errno;
			if (t.size() > 4)
				g_h[N(4)] = Handle{'c', sec};
			o += ",\"p\":" + jptr(sec);
		} else if (c == "ogetnsec") {
			apply_errno();
			cfg_t *sec = cfg_opt_getnsec(hopt(N(1)), (unsigned)N(2));
			saved_errno = errno;
			if (t.size() > 3)
				g_h[N(3)] = Handle{'c', sec};
			o += ",\"p\":" + jptr(sec);
		} else if (c == "ogettsec") {
			Arg title = A(2);
			apply_errno();
			cfg_t *sec = cfg_opt_gettsec(hopt(N(1)), cs(title));
			saved_errno = errno;
			if (t.size() > 3)
				g_h[N(3)] = Handle{'c', sec};
			o += ",\"p\":" + jptr(sec);
		} else if (c == "size") {
			Arg path = A(2);
			apply_errno();
			unsigned n = cfg_size(hcfg(N(1)), cs(path));
			saved_errno = errno;
			o += ",\"n\":" + jnum(n);
		} else if (c == "getint") {
			Arg path = A(2);
			o += ",\"v\":" + jnum(cfg_getnint(hcfg(N(1)), cs(path), (unsigned)N(3)));
		} else if (c == "getfloat") {
			Arg path = A(2);
			o += ",\"v\":" + jdbl(cfg_getnfloat(hcfg(N(1)), cs(path), (unsigned)N(3)));
		} else if (c == "getbool") {
			Arg path = A(2);
			o += ",\"v\":" + jnum(cfg_getnbool(hcfg(N(1)), cs(path), (unsigned)N(3)));
		} else if (c == "getstr") {
			Arg path = A(2);
			o += ",\"v\":" + jstr(cfg_getnstr(hcfg(N(1)), cs(path), (unsigned)N(3)));
		} else if (c == "getcomment") {
			Arg path = A(2);
			o += ",\"v\":" + jstr(cfg_getcomment(hcfg(N(1)), cs(path)));
		} else if (c == "title") {
			o += ",\"v\":" + jstr(cfg_title(hcfg(N(1))));
		} else if (c == "setvalidate") {
			Arg path = A(2);
			cfg_set_validate_func(hcfg(N(1)), cs(path), N(3) ? valid_cb : NULL);
		} else if (c == "setvalidate2") {
			Arg path = A(2);
			cfg_set_validate_func2(hcfg(N(1)), cs(path), N(3) ? valid2_cb : NULL);
		} else if (c == "printfunc") {
			Arg path = A(2);
			cfg_set_print_func(hcfg(N(1)), cs(path), N(3) ? print_cb : NULL);
		} else if (c == "oprintfunc") {
			cfg_opt_set_print_func(hopt(N(1)), N(2) ? print_cb : NULL);
		} else if (c == "filter") {
			// filter h n names...   (n = -1 removes the filter)
			cfg_t *cfg = hcfg(N(1));
			long n = N(2);
			if (n < 0) {
				g_filters.erase((void *)cfg);
				cfg_set_print_filter_func(cfg, NULL);
			} else {
				std::set<string> hide;
				for (long k = 0; k < n; k++)
					hide.insert(A(3 + k).s);
				g_filters[(void *)cfg] = hide;
				cfg_set_print_filter_func(cfg, filter_cb);
			}
		} else if (c == "filterk") {
			// filterk h k n names... : install predicate number k (hide set = names) on section h; k = -1 removes
			cfg_t *cfg = hcfg(N(1));
			long k = N(2);
			if (k < 0 || k > 7) {
				cfg_set_print_filter_func(cfg, NULL);
			} else {
				g_fhide[k].clear();
				for (long j = 0; j < N(3); j++)
					g_fhide[k].insert(A(4 + j).s);
				cfg_set_print_filter_func(cfg, g_ffuncs[k]);
			}
		} else if (c == "dump") {
			o += ",\"tree\":" + dump_cfg(hcfg(N(1)), 0);
			api = false;
		} else if (c == "odump") {
			o += ",\"opt\":" + snap_opt(hopt(N(1)), 0);
			api = false;
		} else if (c == "print") {
			int rc;
			string s = (t.size() > 2) ? print_to_string(1, hcfg(N(1)), NULL, (int)N(2), &rc) : print_to_string(0, hcfg(N(1)), NULL, 0, &rc);
			o += ",\"rc\":" + jnum(rc) + ",\"text\":" + jbytes(s);
		} else if (c == "roundtrip") {
			// roundtrip src dst : print src to memory, parse that text into dst
			int rc;
			string s1 = print_to_string(0, hcfg(N(1)), NULL, 0, &rc);
			cfg_t *dst = hcfg(N(2));
			apply_errno();
			int prc = dst ? cfg_parse_buf(dst, s1.c_str()) : -9;
			saved_errno = errno;
			o += ",\"rc\":" + jnum(prc) + ",\"text\":" + jbytes(s1);
		} else if (c == "oprint") {
			int rc;
			string s = (t.size() > 2) ? print_to_string(3, NULL, hopt(N(1)), (int)N(2), &rc) : print_to_string(2, NULL, hopt(N(1)), 0, &rc);
			o += ",\"rc\":" + jnum(rc) + ",\"text\":" + jbytes(s);
		} else if (c == "nprintvar") {
			int rc;
			string s = print_to_string(4, NULL, hopt(N(1)), (int)N(2), &rc);
			o += ",\"rc\":" + jnum(rc) + ",\"text\":" + jbytes(s);
		} else if (c == "tilde") {
			Arg n = A(1);
			apply_errno();
			char *r = cfg_tilde_expand(cs(n));
			saved_errno = errno;
			o += ",\"v\":" + jstr(r);
			if (r) {
				vt_live_blocks--; // handed to the caller
				free(r);
			}
		} else if (c == "findfile") {
			Arg n = A(2);
			cfg_t *cfg = hcfg(N(1));
			apply_errno();
			char *r = cfg_searchpath(cfg ? cfg->path : NULL, cs(n));
			saved_errno = errno;
			o += ",\"v\":" + jstr(r);
			if (r) {
				vt_live_blocks--;
				free(r);
			}
		} else if (c == "parsebool") {
			Arg n = A(1);
			o += ",\"v\":" + jnum(cfg_parse_boolean(cs(n)));
		} else {
			o += ",\"unknown\":1";
			api = false;
		}
		if (api) {
			o += ",\"errno\":" + jnum(saved_errno);
			g_last_errno = saved_errno;
		}
		if (!g_diag.empty())
			o += ",\"diag\":" + diag_json();
		if (!g_cblog.empty())
			o += ",\"cb\":" + cb_json();
		if (!fail_seen_before && vt_fail_site[0] && c != "failalloc")
			o += ",\"oom\":1"; // the injected allocation failure happened inside this call
		o += "}\n";
		g_out += o;
		flush_out();
	}
	g_out += "{\"c\":\"done\"}\n";
	flush_out();
}

// ------------------------------------------------------------------------------------------
// fork server
static bool read_n(int fd, char *buf, size_t n)
{
	size_t off = 0;
	while (off < n) {
		ssize_t r = read(fd, buf + off, n - off);
		if (r <= 0)
			return false;
		off += (size_t)r;
	}
	return true;
}
static void write_n(int fd, const char *buf, size_t n)
{
	size_t off = 0;
	while (off < n) {
		ssize_t r = write(fd, buf + off, n - off);
		if (r <= 0)
			return;
		off += (size_t)r;
	}
}
static bool read_line(int fd, string &line)
{
	line.clear();
	char ch;
	while (true) {
		ssize_t r = read(fd, &ch, 1);
		if (r <= 0)
			return false;
		if (ch == '\n')
			return true;
		line.push_back(ch);
	}
}

static string slurp_fd(int fd, size_t cap)
{
	string r;
	off_t sz = lseek(fd, 0, SEEK_END);
	if (sz <= 0)
		return r;
	size_t n = (size_t)sz;
	if (n > cap)
		n = cap;
	r.resize(n);
	ssize_t got = pread(fd, &r[0], n, 0);
	if (got < 0)
		got = 0;
	r.resize((size_t)got);
	return r;
}

static int server()
{
	int in = dup(0), out = dup(1);
	int devnull = open("/dev/null", O_RDWR);
	dup2(devnull, 0);
	int tfd = memfd_create("trace", 0), ofd = memfd_create("out", 0), efd = memfd_create("err", 0);
	sigset_t ss;
	sigemptyset(&ss);
	sigaddset(&ss, SIGCHLD);
	sigprocmask(SIG_BLOCK, &ss, NULL);
	string hdr;
	while (read_line(in, hdr)) {
		// header: <len> <cpu_seconds> <wall_seconds>
		long len = 0, cpu = 5, wall = 20;
		sscanf(hdr.c_str(), "%ld %ld %ld", &len, &cpu, &wall);
		string script((size_t)len, '\0');
		if (len && !read_n(in, &script[0], (size_t)len))
			break;
		if (ftruncate(tfd, 0) || ftruncate(ofd, 0) || ftruncate(efd, 0))
			return 3;
		lseek(tfd, 0, SEEK_SET);
		lseek(ofd, 0, SEEK_SET);
		lseek(efd, 0, SEEK_SET);
		pid_t pid = fork();
		if (pid == 0) {
			sigprocmask(SIG_UNBLOCK, &ss, NULL);
			close(in);
			close(out);
			dup2(ofd, 1);
			dup2(efd, 2);
			close(ofd);
			close(efd);
			close(devnull);
			g_trace_fd = tfd;
			struct rlimit rl;
			rl.rlim_cur = (rlim_t)cpu;
			rl.rlim_max = (rlim_t)cpu + 1;
			setrlimit(RLIMIT_CPU, &rl);
			rl.rlim_cur = rl.rlim_max = 0;
			setrlimit(RLIMIT_CORE, &rl);
			run_script(script);
			fflush(stdout);
			fflush(stderr);
			_exit(0);
		}
		string status;
		struct timespec ts;
		ts.tv_sec = wall;
		ts.tv_nsec = 0;
		int st = 0;
		bool timed_out = false;
		while (true) {
			pid_t w = waitpid(pid, &st, WNOHANG);
			if (w == pid)
				break;
			int sig = sigtimedwait(&ss, NULL, &ts);
			if (sig < 0 && errno == EAGAIN) {
				timed_out = true;
				kill(pid, SIGKILL);
				waitpid(pid, &st, 0);
				break;
			}
		}
		char sb[64];
		if (timed_out)
			snprintf(sb, sizeof sb, "timeout 0");
		else if (WIFEXITED(st))
			snprintf(sb, sizeof sb, "exit %d", WEXITSTATUS(st));
		else if (WIFSIGNALED(st))
			snprintf(sb, sizeof sb, "sig %d", WTERMSIG(st));
		else
			snprintf(sb, sizeof sb, "unknown 0");
		string tr = slurp_fd(tfd, (size_t)1 << 30), so = slurp_fd(ofd, 1 << 20), se = slurp_fd(efd, 1 << 16);
		off_t so_total = lseek(ofd, 0, SEEK_END);
		char head[160];
		snprintf(head, sizeof head, "%s %zu %zu %zu %lld\n", sb, tr.size(), so.size(), se.size(), (long long)so_total);
		write_n(out, head, strlen(head));
		write_n(out, tr.data(), tr.size());
		write_n(out, so.data(), so.size());
		write_n(out, se.data(), se.size());
	}
	return 0;
}

int main(int argc, char **argv)
{
	if (argc > 1 && !strcmp(argv[1], "--server"))
		return server();
	// one-shot: script on stdin, trace on stdout
	string script;
	char buf[65536];
	ssize_t n;
	while ((n = read(0, buf, sizeof buf)) > 0)
		script.append(buf, (size_t)n);
	g_trace_fd = 3;
	if (fcntl(3, F_GETFD) < 0)
		g_trace_fd = 2; // no fd 3: trace to stderr so that fd 1 stays observable
	(void)free_all;
	run_script(script);
	return 0;
}

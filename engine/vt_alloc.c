#define _GNU_SOURCE
#define VT_NO_MACROS
#include "vt_alloc.h"
#include <errno.h>

long vt_live_blocks = 0, vt_live_streams = 0, vt_requests = 0, vt_fail_at = 0, vt_total_allocs = 0;
int vt_fill_byte = 0xA5;
char vt_fail_site[256] = "";

void vt_reset(void)
{
	vt_live_blocks = vt_live_streams = vt_requests = vt_fail_at = vt_total_allocs = 0;
	vt_fail_site[0] = 0;
}

static int vt_should_fail(const char *kind, const char *func, int line, int tu)
{
	if (tu != 1)
		return 0;
	vt_requests++;
	if (vt_fail_at && vt_requests == vt_fail_at) {
		snprintf(vt_fail_site, sizeof(vt_fail_site), "%s/%s@%d", func, kind, line);
		dprintf(2, "VT-FAILSITE %s\n", vt_fail_site);
		errno = ENOMEM;
		return 1;
	}
	return 0;
}

void *vt_malloc(size_t n, const char *func, int line, int tu)
{
	void *p;
	if (vt_should_fail("malloc", func, line, tu))
		return NULL;
	p = malloc(n);
	if (p) {
		vt_live_blocks++;
		vt_total_allocs++;
		if (tu == 1)
			memset(p, vt_fill_byte, n);
	}
	return p;
}

void *vt_calloc(size_t a, size_t b, const char *func, int line, int tu)
{
	void *p;
	if (vt_should_fail("calloc", func, line, tu))
		return NULL;
	p = calloc(a, b);
	if (p) {
		vt_live_blocks++;
		vt_total_allocs++;
	}
	return p;
}

void *vt_realloc(void *old, size_t n, const char *func, int line, int tu)
{
	void *p;
	if (vt_should_fail("realloc", func, line, tu))
		return NULL;
	p = realloc(old, n);
	if (p && !old) {
		vt_live_blocks++;
		vt_total_allocs++;
	}
	return p;
}

void *vt_reallocarray(void *old, size_t a, size_t b, const char *func, int line, int tu)
{
	void *p;
	if (vt_should_fail("reallocarray", func, line, tu))
		return NULL;
	p = reallocarray(old, a, b);
	if (p && !old) {
		vt_live_blocks++;
		vt_total_allocs++;
	}
	return p;
}

char *vt_strdup(const char *s, const char *func, int line, int tu)
{
	char *p;
	if (vt_should_fail("strdup", func, line, tu))
		return NULL;
	p = strdup(s);
	if (p) {
		vt_live_blocks++;
		vt_total_allocs++;
	}
	return p;
}

char *vt_strndup(const char *s, size_t n, const char *func, int line, int tu)
{
	char *p;
	if (vt_should_fail("strndup", func, line, tu))
		return NULL;
	p = strndup(s, n);
	if (p) {
		vt_live_blocks++;
		vt_total_allocs++;
	}
	return p;
}

void vt_free(void *p)
{
	if (p)
		vt_live_blocks--;
	free(p);
}

FILE *vt_fopen(const char *path, const char *mode)
{
	FILE *fp = fopen(path, mode);
	if (fp)
		vt_live_streams++;
	return fp;
}

FILE *vt_fmemopen(void *buf, size_t size, const char *mode)
{
	FILE *fp = fmemopen(buf, size, mode);
	if (fp)
		vt_live_streams++;
	return fp;
}

int vt_fclose(FILE *fp)
{
	if (fp)
		vt_live_streams--;
	return fclose(fp);
}

#!/usr/bin/env python3
"""Build libConfuse from /repo's current working tree plus the executor, into a hash-keyed cache.

    build.py [variant ...]      variants: asan fast plain fuzz   (default: asan fast)
prints the build directory on the last line.  Importable: build(variants) -> directory.
"""
import fcntl
import hashlib
import os
import shutil
import subprocess
import sys
import time

VERIF = os.path.dirname(os.path.dirname(os.path.abspath(__file__)))
REPO = os.environ.get("VERIF_REPO", "/repo")
SRC = os.path.join(REPO, "src")
ENGINE = os.path.join(VERIF, "engine")
FUZZ = os.path.join(VERIF, "fuzz")
BUILD = os.path.join(VERIF, "build")

LIB_SOURCES = ["confuse.c", "confuse.h", "compat.h", "lexer.l", "fmemopen.c", "reallocarray.c"]
ENGINE_SOURCES = ["cfgx.cc", "vt_alloc.c", "vt_alloc.h"]
FUZZ_SOURCES = ["fuzz_parse.c", "fuzz_roundtrip.c"]

DEFS = ["-D_GNU_SOURCE", "-DHAVE_FMEMOPEN", "-DHAVE_REALLOCARRAY", "-DHAVE_STRDUP", "-DHAVE_STRNDUP",
        "-DHAVE_STRCASECMP", "-DHAVE_STRING_H", "-DHAVE_STRINGS_H", "-DHAVE_SYS_STAT_H", "-DHAVE_UNISTD_H",
        "-DHAVE_STDLIB_H", "-DHAVE_STDIO_H", "-DHAVE_SETENV", "-DHAVE_UNSETENV",
        '-DPACKAGE_VERSION="3.3"', '-DPACKAGE_STRING="libConfuse 3.3"', '-DPACKAGE="confuse"',
        "-DLIBCONFUSE_VERIF"]

VARIANTS = {
    "asan": ["-g", "-O1", "-fsanitize=address,undefined", "-fno-sanitize-recover=undefined",
             "-fno-omit-frame-pointer"],
    "fast": ["-g", "-O1", "-fsanitize=undefined", "-fno-sanitize-recover=undefined"],
    "plain": ["-g", "-O1"],
    "cov": ["-g", "-O0", "-fprofile-instr-generate", "-fcoverage-mapping"],
    "fuzz": ["-g", "-O1", "-fsanitize=address,undefined", "-fno-sanitize-recover=undefined",
             "-fno-omit-frame-pointer", "-fsanitize=fuzzer-no-link"],
}


def source_hash():
    h = hashlib.sha256()
    for name in LIB_SOURCES:
        p = os.path.join(SRC, name)
        h.update(name.encode())
        if os.path.exists(p):
            with open(p, "rb") as f:
                h.update(f.read())
    for name in ENGINE_SOURCES + ["build.py"]:
        with open(os.path.join(ENGINE, name), "rb") as f:
            h.update(name.encode())
            h.update(f.read())
    for name in FUZZ_SOURCES:
        p = os.path.join(FUZZ, name)
        if os.path.exists(p):
            with open(p, "rb") as f:
                h.update(name.encode())
                h.update(f.read())
    return h.hexdigest()[:16]


def run(cmd, cwd=None):
    r = subprocess.run(cmd, cwd=cwd, stdout=subprocess.PIPE, stderr=subprocess.STDOUT, text=True)
    if r.returncode != 0:
        sys.stderr.write("BUILD FAILED: %s\n%s\n" % (" ".join(cmd), r.stdout))
        raise SystemExit(2)
    return r.stdout


def build_variant(d, variant):
    out = os.path.join(d, variant)
    if os.path.exists(os.path.join(out, ".done")):
        return out
    tmp = out + ".tmp%d" % os.getpid()
    shutil.rmtree(tmp, ignore_errors=True)
    os.makedirs(tmp)
    flags = VARIANTS[variant]
    inc = ["-I", SRC, "-I", ENGINE]
    lexer_c = os.path.join(d, "lexer.c")
    cc = ["clang"] + flags + DEFS + inc + ["-include", os.path.join(ENGINE, "vt_alloc.h"), "-w"]
    jobs = [
        cc + ["-DVT_TU=1", "-c", os.path.join(SRC, "confuse.c"), "-o", os.path.join(tmp, "confuse.o")],
        cc + ["-DVT_TU=2", "-c", lexer_c, "-o", os.path.join(tmp, "lexer.o")],
        ["clang"] + flags + ["-I", ENGINE, "-c", os.path.join(ENGINE, "vt_alloc.c"), "-o", os.path.join(tmp, "vt_alloc.o")],
    ]
    procs = [subprocess.Popen(j, stdout=subprocess.PIPE, stderr=subprocess.STDOUT, text=True) for j in jobs]
    for p, j in zip(procs, jobs):
        o, _ = p.communicate()
        if p.returncode != 0:
            sys.stderr.write("BUILD FAILED: %s\n%s\n" % (" ".join(j), o))
            raise SystemExit(2)
    objs = [os.path.join(tmp, x) for x in ("confuse.o", "lexer.o", "vt_alloc.o")]
    if variant == "fuzz":
        for src in FUZZ_SOURCES:
            p = os.path.join(FUZZ, src)
            if not os.path.exists(p):
                continue
            exe = os.path.join(tmp, src[:-2])
            fl = [f for f in flags if f != "-fsanitize=fuzzer-no-link"] + ["-fsanitize=fuzzer"]
            run(["clang"] + fl + DEFS + inc + ["-w", p] + objs + ["-o", exe])
    else:
        cxx_flags = [f for f in flags]
        run(["clang++", "-std=gnu++17"] + cxx_flags + inc + ["-w", os.path.join(ENGINE, "cfgx.cc")] + objs +
            ["-o", os.path.join(tmp, "cfgx")])
    open(os.path.join(tmp, ".done"), "w").close()
    shutil.rmtree(out, ignore_errors=True)
    os.rename(tmp, out)
    return out


def prune(keep):
    try:
        dirs = [os.path.join(BUILD, x) for x in os.listdir(BUILD) if os.path.isdir(os.path.join(BUILD, x))]
    except FileNotFoundError:
        return
    dirs.sort(key=lambda p: os.path.getmtime(p), reverse=True)
    for p in dirs[4:]:
        if p != keep:
            shutil.rmtree(p, ignore_errors=True)


def build(variants=("asan", "fast")):
    os.makedirs(BUILD, exist_ok=True)
    h = source_hash()
    d = os.path.join(BUILD, h)
    need = [v for v in variants if not os.path.exists(os.path.join(d, v, ".done"))]
    if not need:
        os.utime(d, None)
        return d
    with open(os.path.join(BUILD, ".lock"), "w") as lock:
        fcntl.flock(lock, fcntl.LOCK_EX)
        os.makedirs(d, exist_ok=True)
        lexer_c = os.path.join(d, "lexer.c")
        if not os.path.exists(lexer_c):
            run(["flex", "-Pcfg_yy", "-o", lexer_c + ".tmp.c", os.path.join(SRC, "lexer.l")])
            os.rename(lexer_c + ".tmp.c", lexer_c)
        for v in variants:
            build_variant(d, v)
        os.utime(d, None)
        prune(d)
    return d


if __name__ == "__main__":
    vs = sys.argv[1:] or ["asan", "fast"]
    t0 = time.time()
    d = build(vs)
    sys.stderr.write("build %s in %.1fs\n" % (",".join(vs), time.time() - t0))
    print(d)

/* Force-included (-include) into confuse.c and lexer.c: counting / failable allocator shim.
 * No change to the library sources is needed.  VT_TU: 1 = confuse.c (failures injectable),
 * 2 = lexer.c (counted only). */
#ifndef VT_ALLOC_H
#define VT_ALLOC_H
#include <stdlib.h>
#include <string.h>
#include <stdio.h>
#ifndef VT_TU
#define VT_TU 0
#endif
#ifdef __cplusplus
extern "C" {
#endif
void *vt_malloc(size_t n, const char *func, int line, int tu);
void *vt_calloc(size_t a, size_t b, const char *func, int line, int tu);
void *vt_realloc(void *p, size_t n, const char *func, int line, int tu);
void *vt_reallocarray(void *p, size_t a, size_t b, const char *func, int line, int tu);
char *vt_strdup(const char *s, const char *func, int line, int tu);
char *vt_strndup(const char *s, size_t n, const char *func, int line, int tu);
void vt_free(void *p);
FILE *vt_fopen(const char *path, const char *mode);
FILE *vt_fmemopen(void *buf, size_t size, const char *mode);
int vt_fclose(FILE *fp);
/* control / observation (used by the executor only) */
extern long vt_live_blocks, vt_live_streams, vt_requests, vt_fail_at, vt_total_allocs;
extern int vt_fill_byte;
extern char vt_fail_site[256];
void vt_reset(void);
#ifdef __cplusplus
}
#endif
#ifndef VT_NO_MACROS
#undef malloc
#undef calloc
#undef realloc
#undef reallocarray
#undef strdup
#undef strndup
#undef free
#undef fopen
#undef fmemopen
#undef fclose
#define malloc(n) vt_malloc((n), __func__, __LINE__, VT_TU)
#define calloc(a, b) vt_calloc((a), (b), __func__, __LINE__, VT_TU)
#define realloc(p, n) vt_realloc((p), (n), __func__, __LINE__, VT_TU)
#define reallocarray(p, a, b) vt_reallocarray((p), (a), (b), __func__, __LINE__, VT_TU)
#define strdup(s) vt_strdup((s), __func__, __LINE__, VT_TU)
#define strndup(s, n) vt_strndup((s), (n), __func__, __LINE__, VT_TU)
#define free(p) vt_free(p)
#define fopen(a, b) vt_fopen((a), (b))
#define fmemopen(a, b, c) vt_fmemopen((a), (b), (c))
#define fclose(f) vt_fclose(f)
#endif
#endif

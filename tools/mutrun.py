#!/usr/bin/env python3
"""mutrun.py <seeded-id> [checks]  — run checks (default: the target property's) against /verif/seeded/<id>/patch.diff and
record which checks detect it in meta.json (detected_by: {check: [signatures] or []})."""
import json, os, re, subprocess, sys
V = os.path.dirname(os.path.dirname(os.path.abspath(__file__)))
mid = sys.argv[1]
d = os.path.join(V, "seeded", mid)
meta = json.load(open(os.path.join(d, "meta.json")))
checks = sys.argv[2] if len(sys.argv) > 2 else meta["property"]
p = subprocess.run([os.path.join(V, "tools", "sens.py"), "--patch", os.path.join(d, "patch.diff"), "--checks", checks, "--label", mid],
                   stdout=subprocess.PIPE, stderr=subprocess.STDOUT, text=True)
print(p.stdout, end="")
det = meta.get("detected_by") or {}
for ln in p.stdout.splitlines():
    m = re.match(r"\S+\s+(C\d+) exit=(\d+)\s+\d+s\s*(.*)", ln)
    if m:
        det[m.group(1)] = {"exit": int(m.group(2)), "signatures": m.group(3).split()}
meta["detected_by"] = det
json.dump(meta, open(os.path.join(d, "meta.json"), "w"), indent=1)

#!/usr/bin/env python3
"""keep.py <replay.json> <name>  — copy a replay file into corpus/<ID>/<name>.json"""
import json, os, sys
b = json.load(open(sys.argv[1]))
d = os.path.join(os.path.dirname(os.path.dirname(os.path.abspath(__file__))), "corpus", b["property"])
os.makedirs(d, exist_ok=True)
json.dump({"property": b["property"], "sig": b["sig"], "msg": b["msg"][:400], "case": b["case"]},
          open(os.path.join(d, sys.argv[2] + ".json"), "w"), indent=1)
print("kept", sys.argv[2])

#!/usr/bin/env python3
import json, sys, glob, os
sys.path.insert(0, os.path.join(os.path.dirname(os.path.dirname(os.path.abspath(__file__))), "pbt"))
import gen_text
for f in sorted(glob.glob(sys.argv[1] + "/*.json")):
    b = json.load(open(f)); c = b["case"]
    print("==", os.path.basename(f), b["sig"], "|", b["msg"][:150].replace("\n", " / "))
    d = {k: v for k, v in c.items() if k not in ("tokens", "classes", "nontrivial")}
    if "tokens" in c:
        d["text"] = gen_text.render(c["tokens"])[-300:]
    print("   ", json.dumps(d)[:900])

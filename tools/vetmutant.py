#!/usr/bin/env python3
"""vetmutant.py <agent-dir> <X>   (e.g. /tmp/mut_C01 A)
Confirms a seeded change independently in a fresh scratch worktree: demo passes on the clean tree, the patch applies, the
library builds and `make check` passes, the demo fails with the patch.  On success stores it under /verif/seeded/<id>/."""
import json, os, re, shutil, subprocess, sys
V = os.path.dirname(os.path.dirname(os.path.abspath(__file__)))
src, X = sys.argv[1].rstrip("/"), sys.argv[2]
out = os.path.join(src, "out")
meta = json.load(open(os.path.join(out, "mut%s.json" % X)))
prop = meta.get("property", os.path.basename(src)[-3:])
mid = "%s-%s" % (prop, X)
wt = "/tmp/vet_%s_%d" % (mid, os.getpid())
log = []


def sh(cmd, cwd=wt, timeout=900):
    r = subprocess.run(cmd, shell=True, cwd=cwd, stdout=subprocess.PIPE, stderr=subprocess.STDOUT, text=True, timeout=timeout)
    log.append({"cmd": cmd, "rc": r.returncode, "tail": r.stdout[-300:]})
    return r


subprocess.run([os.path.join(V, "tools", "mkscratch.sh"), wt], check=True, stdout=subprocess.DEVNULL)
ok = False
try:
    os.makedirs(os.path.join(wt, "out"), exist_ok=True)
    for f in os.listdir(out):
        if f.startswith(("demo%s" % X, "shim")) and f.endswith((".c", ".h", ".sh")):
            shutil.copy(os.path.join(out, f), os.path.join(wt, "out", f))
    fix = lambda c: c.replace(src, wt)
    strip_git = lambda c: " && ".join(seg.strip() for seg in c.split("&&") if not seg.strip().startswith("git "))
    build, run = strip_git(fix(meta["demo_build"])), strip_git(fix(meta["demo_run"]))
    sh("make -C src")
    b = sh(build)
    r0 = sh(run, timeout=300)
    if b.returncode != 0 or r0.returncode != 0:
        print(mid, "REJECTED: demo does not pass on the clean tree (build rc %d, run rc %d): %s" % (b.returncode, r0.returncode, (b.stdout + r0.stdout)[-300:]))
        sys.exit(1)
    ap = subprocess.run(["git", "-C", wt, "apply", os.path.join(out, "mut%s.diff" % X)], stdout=subprocess.PIPE, stderr=subprocess.STDOUT, text=True)
    if ap.returncode != 0:
        print(mid, "REJECTED: patch does not apply:", ap.stdout[:300])
        sys.exit(1)
    mc = sh("make check 2>&1 | grep -E '^# (PASS|FAIL|ERROR|TOTAL)'")
    m = dict(re.findall(r"# (\w+):\s+(\d+)", mc.stdout))
    if m.get("PASS") != "24" or m.get("FAIL") != "0":
        print(mid, "REJECTED: make check with the change:", mc.stdout.replace("\n", " "))
        sys.exit(1)
    sh(build)
    r1 = sh(run, timeout=300)
    if r1.returncode == 0:
        print(mid, "REJECTED: demo still passes with the change applied")
        sys.exit(1)
    d = os.path.join(V, "seeded", mid)
    os.makedirs(d, exist_ok=True)
    shutil.copy(os.path.join(out, "mut%s.diff" % X), os.path.join(d, "patch.diff"))
    for f in os.listdir(out):
        if f.startswith(("demo%s" % X, "shim")) and f.endswith((".c", ".h", ".sh")):
            shutil.copy(os.path.join(out, f), os.path.join(d, f))
    meta2 = {"id": mid, "property": prop, "summary": meta.get("summary"), "needs": meta.get("needs"),
             "demo_build": meta["demo_build"], "demo_run": meta["demo_run"], "origin": "independent sub-agent given only the property text",
             "confirmed": {"demo_on_clean_tree": "exit 0", "make_check_with_change": "24/24 pass", "demo_with_change": "exit %d" % r1.returncode,
                           "how": "tools/vetmutant.py in a fresh scratch worktree of /repo HEAD %s" % subprocess.run(["git", "-C", "/repo", "log", "--format=%h", "-1"], stdout=subprocess.PIPE, text=True).stdout.strip()},
             "detected_by": None}
    json.dump(meta2, open(os.path.join(d, "meta.json"), "w"), indent=1)
    print(mid, "CONFIRMED ->", d)
    ok = True
finally:
    subprocess.run(["git", "-C", "/repo", "worktree", "remove", "--force", wt], stdout=subprocess.DEVNULL, stderr=subprocess.DEVNULL)
    shutil.rmtree(wt, ignore_errors=True)

#!/usr/bin/env python3
"""Generate the sensitivity tables (markdown) from seeded/*/meta.json and sensitivity/reverts.log."""
import glob, json, os, re, subprocess
V = os.path.dirname(os.path.dirname(os.path.abspath(__file__)))
out = []
out.append("### 12.1 Each repair reverted (one at a time, scratch worktree, quick tier)\n")
out.append("| reverted commit | what it had repaired | check | result | signatures (first) |")
out.append("|---|---|---|---|---|")
subj = {}
for ln in subprocess.run(["git", "-C", "/repo", "log", "--format=%h %s"], stdout=subprocess.PIPE, text=True).stdout.splitlines():
    h, s = ln.split(" ", 1)
    subj[h] = s[5:] if s.startswith("fix: ") else s
p = os.path.join(V, "sensitivity", "reverts.log")
if os.path.exists(p):
    for ln in open(p):
        m = re.match(r"rev-(\w+)\s+(C\d+) exit=(\d+)\s+(\d+)s\s*(.*)", ln)
        if m:
            h, c, ex, secs, sigs = m.groups()
            out.append("| %s | %s | %s | %s (%ss) | %s |" % (h, subj.get(h, "?")[:90], c, "caught" if ex == "1" else ("MISSED" if ex == "0" else "exit " + ex), secs,
                                                            ", ".join(sigs.split()[:2])[:120].replace("|", "\\|")))
        elif "APPLY-FAILED" in ln:
            out.append("| %s | | | revert does not apply cleanly (later repairs touch the same lines) | |" % ln.split()[0][4:])
out.append("")
out.append("### 12.2 Changes seeded by independent sub-agents\n")
out.append("| id | change | needs | detected by (signatures) |")
out.append("|---|---|---|---|")
for f in sorted(glob.glob(os.path.join(V, "seeded", "*", "meta.json"))):
    m = json.load(open(f))
    det = m.get("detected_by") or {}
    ds = []
    if m.get("obsolete"):
        det = {}
        ds.append("no longer a violation: " + m["obsolete"][:160])
    for c, r in sorted(det.items()):
        if r.get("exit") == 1:
            ds.append("%s (%s)" % (c, ", ".join(r.get("signatures", [])[:2])[:90]))
        else:
            ds.append("%s: not detected" % c)
    out.append("| %s | %s | %s | %s |" % (m["id"], (m.get("summary") or "")[:220].replace("|", "\\|").replace("\n", " "),
                                         (m.get("needs") or "")[:200].replace("|", "\\|").replace("\n", " "), "; ".join(ds).replace("|", "\\|") or "not run"))
print("\n".join(out))

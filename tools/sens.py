#!/usr/bin/env python3
"""Sensitivity runs: apply a change to a scratch worktree of /repo and run checks against it.

    sens.py --revert <commit> --checks C07,C18 [--label x]
    sens.py --patch <file.diff> --checks all [--label x]
Prints one line per check: label check exit-code signatures.  Evidence/replays go to a scratch directory."""
import argparse, os, re, shutil, subprocess, sys, time
V = os.path.dirname(os.path.dirname(os.path.abspath(__file__)))
ALL = ["C%02d" % i for i in range(1, 20)]
ap = argparse.ArgumentParser()
ap.add_argument("--revert")
ap.add_argument("--patch")
ap.add_argument("--checks", default="all")
ap.add_argument("--label", default=None)
ap.add_argument("--tier", default="quick")
a = ap.parse_args()
label = a.label or (a.revert or os.path.basename(a.patch))[:12]
wt = "/tmp/sens_%s_%d" % (re.sub(r"\W", "_", label), os.getpid())
subprocess.run(["git", "-C", "/repo", "worktree", "add", "--detach", wt, "HEAD"], check=True, stdout=subprocess.DEVNULL, stderr=subprocess.DEVNULL)
try:
    if a.revert:
        r = subprocess.run(["git", "-C", wt, "revert", "-n", a.revert], stdout=subprocess.PIPE, stderr=subprocess.STDOUT, text=True)
    else:
        r = subprocess.run(["git", "-C", wt, "apply", os.path.abspath(a.patch)], stdout=subprocess.PIPE, stderr=subprocess.STDOUT, text=True)
    if r.returncode != 0:
        print(label, "APPLY-FAILED", r.stdout[:300].replace("\n", " | "))
        sys.exit(3)
    env = dict(os.environ, VERIF_STOP_ON_FIRST="1", VERIF_REPO=wt, VERIF_EVIDENCE_DIR="/tmp/sens_evidence", VERIF_REPLAY_DIR="/tmp/sens_replays_%s" % label)
    checks = ALL if a.checks == "all" else a.checks.split(",")
    for c in checks:
        t0 = time.time()
        p = subprocess.run([os.path.join(V, "check"), c, "--tier", a.tier], env=env, stdout=subprocess.PIPE, stderr=subprocess.STDOUT, text=True)
        sigs = re.findall(r"sig=(\S+)", p.stdout)
        print("%-28s %s exit=%d %4.0fs %s" % (label, c, p.returncode, time.time() - t0, " ".join(sorted(set(sigs)))[:400] or ("build-failed" if p.returncode == 2 else "")), flush=True)
finally:
    subprocess.run(["git", "-C", "/repo", "worktree", "remove", "--force", wt], stdout=subprocess.DEVNULL, stderr=subprocess.DEVNULL)
    shutil.rmtree("/tmp/sens_replays_%s" % label, ignore_errors=True)

#!/bin/sh
# mkscratch.sh <dir> : git worktree of /repo HEAD at <dir>, plus the (ignored) configured autotools build files, so `make check` works there
set -e
d="$1"
git -C /repo worktree add --detach "$d" HEAD >/dev/null 2>&1
rsync -a --ignore-existing --exclude .git /repo/ "$d"/ || [ $? -eq 24 ]
# make sure nothing looks newer than the sources in a way that triggers autotools regeneration
( cd "$d" && touch -r /repo/configure configure 2>/dev/null; true )
echo "$d"

#!/usr/bin/env python3
"""Regenerate MANIFEST.json from the table below."""
import json, os
V = os.path.dirname(os.path.dirname(os.path.abspath(__file__)))
CLAIMED = {
    "C02": ("exploration", "5.C02",
            "directed pathological shapes + mutated grammar-derived texts + libFuzzer, ASan/UBSan, stdout capture, re-use of the context",
            "Generated-input search with sanitizers: absence is not established; termination approximated by CPU limits.",
            "property-based testing (Hypothesis byte mutation of grammar-derived texts) + directed size-parameterised shapes + libFuzzer, sanitizer/exit/stdout oracle"),
    "C07": ("fault_enumeration", "5.C07",
            "systematic error-point enumeration (every token of rich texts cut/corrupted) and exhaustive short API histories with an allocation/stream/descriptor/pointer-release balance oracle under ASan",
            "Counting shim over confuse.c+lexer.c; coverage limited to the enumerated texts and histories.",
            "systematic fault-point enumeration + property-based API histories (Hypothesis), resource-balance oracle, ASan/UBSan"),
    "C18": ("fault_enumeration", "5.C18",
            "exhaustive single-allocation-failure sweep (every k of every workload) through a force-included failable allocator, with survive/usable/balance oracle",
            "Only allocation requests of confuse.c along the executed workloads; single failures.",
            "fault injection: exhaustive k-th allocation failure sweep over fixed and generated workloads"),
    "C03": ("exploration", "5.C03",
            "exhaustive small-scope enumeration of literals per quoting context against an independent lexer/language model, plus fragment products and random longer literals",
            "Exhaustive only up to the stated literal length over the stated byte classes; grey zone as listed in the evidence.",
            "exhaustive bounded enumeration + property-based generation (Hypothesis) against a reference lexer model"),
    "C04": ("exploration", "5.C04",
            "exhaustive small-scope enumeration of numeral tokens through parser and string-taking setters under several ambient errno values against a three-valued oracle, plus boundary values",
            "Exhaustive only up to the stated token length; float expectations from Python's correctly rounded float().",
            "exhaustive bounded enumeration + boundary values + random longer tokens (Hypothesis), three-valued reference oracle"),
    "C01": ("exploration", "5.C01",
            "exhaustive token sequences (every parser state x token) on fixed schemas plus random schemas x flags x mutated grammar-derived text sequences, compared with an independent language/store model after every accepted text",
            "The model is written from the documentation and the property text; exhaustive only up to the stated sequence length.",
            "model-based property testing (Hypothesis schema+text generators, token mutation) + exhaustive bounded enumeration against a reference interpreter"),
    "C06": ("exploration", "5.C06",
            "multi-line texts with comments, multi-line strings, continuations, nested sections and includes, one injected error per token position; language model gives the offending token; diagnostics (count, file, line) compared",
            "Message texts are not compared; the model's notion of the offending token is the one of DESIGN 5.C06.",
            "property-based testing (Hypothesis) with systematic per-position error injection against a reference lexer+parser model"),
    "C12": ("exploration", "5.C12",
            "metamorphic: accepted texts x every item boundary at every depth x generated well-formed unknown items (recursive, depth <= 6, directed 10^k nesting); same result with the flag, rejection with diagnostic without it",
            "Only well-formed unknown items; base texts are those the reference model accepts.",
            "metamorphic property-based testing (Hypothesis recursive generator of unknown items, insertion at every boundary)"),
    "C15": ("exploration", "5.C15",
            "metamorphic: comment / white-space forms inserted at every token boundary of accepted and rejected texts leave return code and values unchanged; annotation text, print and re-parse checked against the lexer model",
            "Annotation inheritance is judged only in the positive direction stated by the property.",
            "metamorphic property-based testing (Hypothesis), insertion at every token boundary, lexer model for the expected annotation"),
    "C05": ("exploration", "5.C05",
            "round trip / fix point: random states (texts and setter sequences, strings and titles over all bytes) printed, re-parsed into a fresh context, trees and second/third print compared",
            "States without a text form (explicit NULL strings, removed default sections, NaN/inf) are not generated.",
            "round-trip property-based testing (Hypothesis stateful-style operation sequences), print/parse/print fix-point oracle"),
    "C09": ("exploration", "5.C09",
            "model-based: exhaustive call sequences (depth 3, 4 from the initial state in thorough) over a 60-call alphabet from four start states plus random sequences to length 30, abstract typed store as oracle after every call",
            "Store model of DESIGN Appendix A incl. its stated 'model follows code' decisions.",
            "model-based stateful testing: exhaustive bounded sequence enumeration + Hypothesis sequences against an abstract store"),
    "C10": ("exploration", "5.C10",
            "complete product of option-state recipes x refusing calls x offending positions, bit-identical dump before/after (values, annotation, RESET/MODIFIED), plus random interleavings with successful calls",
            "Refusals are refusals by construction; the dump goes through public getters plus the public flag bits.",
            "exhaustive product enumeration + Hypothesis interleavings, snapshot-equality invariant"),
    "C11": ("exploration", "5.C11",
            "differential against stepwise navigation: every option/section instance of generated trees x every qualifier form of every step and systematically broken variants; pointer identity, setter/size/rmsec effects, unchanged dump",
            "The tree is enumerated from the reference model; grey zone as stated in the evidence.",
            "property-based testing (Hypothesis trees) + systematic path-form enumeration, differential oracle against single-level accessors"),
    "C13": ("exploration", "5.C13",
            "differential: accepted texts split at item boundaries into random include trees (depth 1..12, cwd / absolute / search path) vs the flat text; error position after an include; failure histories followed by a succeeding include; resource and include-depth balance",
            "Split points come from the reference model; unreadable files cannot be produced as root.",
            "metamorphic/differential property-based testing (Hypothesis split trees, failure histories)"),
    "C14": ("exploration", "5.C14",
            "model-based: schemas with generated callback placement (declared or registered by schema path) x texts x every choice of the failing invocation; exact invocation log, verdict and tree compared with the language model; veto/rewrite of by-name setters enumerated",
            "The model mirrors the code's extra validation calls at list/section close to predict invocation numbers.",
            "model-based property testing (Hypothesis) with exhaustive failing-invocation sweep per text"),
    "C19": ("exploration", "5.C19",
            "model-based: printer model (declaration order, once per instance, effective filter = own else inherited, depth, commented-out unset scalars, print callbacks) against cfg_print / cfg_print_indent / cfg_opt_print / cfg_opt_print_indent for generated schemas, states, filter placements and callback placements",
            "Blanks outside quotes are cosmetic; multi-line annotations are not generated.",
            "model-based property testing (Hypothesis) against a reference printer model"),
    "C16": ("exploration", "5.C16",
            "declaration memory poisoned and freed right after cfg_init for generated schemas, later instance creation / defaults / print checked against the language model under ASan; all interleavings (<= 6 steps) of two operation lists on two contexts and on two sibling section instances compared with their solo runs",
            "Stale reads are visible through ASan and the 0xA5 overwrite; function pointers are not declaration memory.",
            "property-based testing (Hypothesis schemas) with use-after-free oracle + exhaustive interleaving enumeration, differential against solo runs"),
    "C17": ("exploration", "5.C17",
            "exhaustive placements (3^4) x search-path sequences x name forms against a file/passwd model; cfg_parse vs include resolution; two heap-fill patterns for uninitialised-memory dependence",
            "Home directories from Python's pwd; uninitialised reads only through the two-fill differential and ASan interceptors.",
            "exhaustive bounded enumeration of fixture layouts, reference file model, two-fill differential"),
}
PENDING = {}
props = [json.loads(l) for l in open(os.path.join(V, "properties.jsonl"))]
checks, na = [], []
for p in props:
    i = p["id"]
    if i in CLAIMED:
        lvl, ref, text, note, tech = CLAIMED[i]
        checks.append({
            "property_id": i,
            "quick_cmd": "./check %s --tier quick" % i,
            "thorough_cmd": "./check %s --tier thorough" % i,
            "evidence_file": "/verif/evidence/%s.json" % i,
            "replay_cmd_template": "./check %s --replay {path}" % i,
            "engine": "cfgx+hypothesis",
            "level_claimed": {"category": lvl, "text": text, "design_ref": ref},
            "level_note": note,
            "technique": tech,
        })
    else:
        na.append({"property_id": i, "reason": PENDING.get(i, "check not built yet (work in progress; see DESIGN.md section 5 for the planned generated-input check)")})
m = {
    "version": 1,
    "setup_cmd": "./setup.sh",
    "hooks": {
        "guard": "LIBCONFUSE_VERIF",
        "enable": "no source hooks are needed: checks compile /repo/src with -DLIBCONFUSE_VERIF and a force-included allocator shim (-include engine/vt_alloc.h)",
        "baseline_off_cmd": "cd /repo && make check",
        "source_commits": [],
        "add_only": True,
    },
    "engines": [
        {"name": "cfgx+hypothesis", "path": "engine/cfgx.cc, pbt/", "serves_properties": sorted(CLAIMED),
         "kind_free_text": "C++ case-script executor (fork server, ASan+UBSan, failable allocator shim) driven by Python/Hypothesis generators and reference models"},
        {"name": "libFuzzer", "path": "fuzz/", "serves_properties": ["C02"], "kind_free_text": "coverage-guided byte-level fuzz targets with in-target oracles"},
    ],
    "checks": checks,
    "not_applicable": na,
    "notes": "All checks rebuild libConfuse from /repo/src (flex + clang) into a hash-keyed cache under /verif/build.",
}
json.dump(m, open(os.path.join(V, "MANIFEST.json"), "w"), indent=1)
print("claimed:", sorted(CLAIMED), "pending:", len(na))

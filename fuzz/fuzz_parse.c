/* libFuzzer target for C02 (and a secondary source of texts for other oracles).
 * byte 0: schema, byte 1: context flags + delivery route, rest: the text.
 * In-target oracle: return code in {0,1}; nothing written to fd 1; the context can afterwards be walked with
 * every getter, printed, parsed into again and freed; ASan/UBSan/-timeout/exit make the rest visible. */
#define _GNU_SOURCE
#include <errno.h>
#include <fcntl.h>
#include <stdint.h>
#include <stdio.h>
#include <stdlib.h>
#include <string.h>
#include <sys/mman.h>
#include <sys/stat.h>
#include <unistd.h>
#include "confuse.h"

extern void cfg_yylex_destroy(void);
extern int cfg_include_stack_ptr;

static int out_fd = -1;
static char fxdir[512];

static void die(const char *what)
{
	fprintf(stderr, "VT-ORACLE: %s\n", what);
	fflush(stderr);
	__builtin_trap();
}

static void errfunc(cfg_t *cfg, const char *fmt, va_list ap)
{
	char buf[512];
	(void)cfg;
	vsnprintf(buf, sizeof buf, fmt, ap);
}

static int live_ptrs = 0;
static int parse_ptr(cfg_t *cfg, cfg_opt_t *opt, const char *value, void *result)
{
	(void)cfg;
	(void)opt;
	if (!value)
		return 1;
	*(void **)result = strdup(value);
	live_ptrs++;
	return 0;
}
static int parse_ptr_static(cfg_t *cfg, cfg_opt_t *opt, const char *value, void *result)
{
	static char blk[4];
	(void)cfg;
	(void)opt;
	if (!value)
		return 1;
	*(void **)result = blk;
	return 0;
}
static void free_ptr(void *p)
{
	live_ptrs--;
	free(p);
}
static int parse_int(cfg_t *cfg, cfg_opt_t *opt, const char *value, void *result)
{
	(void)opt;
	if (!value || value[0] == 'x') {
		cfg_error(cfg, "refused");
		return 1;
	}
	*(long *)result = (long)strlen(value);
	return 0;
}
static int validate(cfg_t *cfg, cfg_opt_t *opt)
{
	if (cfg_opt_size(opt) > 5) {
		cfg_error(cfg, "too many");
		return 1;
	}
	return 0;
}
static int logfunc(cfg_t *cfg, cfg_opt_t *opt, int argc, const char **argv)
{
	int i;
	size_t n = 0;
	(void)cfg;
	(void)opt;
	for (i = 0; i < argc; i++)
		n += strlen(argv[i]);
	return n > 100000 ? 1 : 0;
}
static int safe_include(cfg_t *cfg, cfg_opt_t *opt, int argc, const char **argv)
{
	if (argc == 1 && (strchr(argv[0], '/') || argv[0][0] == '~' || argv[0][0] == 0)) {
		cfg_error(cfg, "include target outside the fixture directory refused by the harness");
		return 1;
	}
	return cfg_include(cfg, opt, argc, argv);
}

static cfg_opt_t inner[] = { CFG_INT("x", 7, CFGF_NONE), CFG_STR("y", "why", CFGF_NONE), CFG_INT_LIST("zl", "{1, 2}", CFGF_NONE), CFG_END() };
static cfg_opt_t deeper[] = { CFG_INT("e", 2, CFGF_NONE), CFG_STR_LIST("el", NULL, CFGF_NONE), CFG_END() };
static cfg_opt_t deep[] = { CFG_INT("d", 1, CFGF_NONE), CFG_SEC("deeper", deeper, CFGF_MULTI | CFGF_TITLE), CFG_END() };
static cfg_opt_t kvknown[] = { CFG_STR("known", "k", CFGF_NONE), CFG_END() };
static cfg_opt_t noopts[] = { CFG_END() };
static cfg_opt_t psec[] = { CFG_PTR_CB("q", NULL, CFGF_NONE, parse_ptr, free_ptr), CFG_PTR_LIST_CB("ql", NULL, CFGF_NONE, parse_ptr, free_ptr), CFG_END() };
static cfg_opt_t fsec[] = { CFG_INT("x", 1, CFGF_NONE), CFG_FUNC("include", safe_include), CFG_FUNC("g", logfunc), CFG_END() };

static cfg_opt_t s_mixed[] = {
	CFG_INT("i", 5, CFGF_NONE), CFG_FLOAT("f", 1.5, CFGF_NONE), CFG_BOOL("b", cfg_false, CFGF_NONE),
	CFG_STR("s", "dflt", CFGF_NONE), CFG_STR("sn", NULL, CFGF_NONE), CFG_INT_LIST("il", "{10, 20}", CFGF_NONE),
	CFG_FLOAT_LIST("fl", NULL, CFGF_NONE), CFG_BOOL_LIST("bl", "{true}", CFGF_NONE), CFG_STR_LIST("sl", "{\"a\", b}", CFGF_NONE),
	CFG_SEC("tm", inner, CFGF_MULTI | CFGF_TITLE), CFG_SEC("single", inner, CFGF_NONE), CFG_FUNC("fn", logfunc),
	CFG_FUNC("include", safe_include), CFG_PTR_CB("p", NULL, CFGF_NONE, parse_ptr, free_ptr),
	CFG_SEC("kv", noopts, CFGF_KEYSTRVAL), CFG_END()
};
static cfg_opt_t s_sections[] = {
	CFG_INT("i", 5, CFGF_NONE), CFG_SEC("single", inner, CFGF_NONE), CFG_SEC("multi", inner, CFGF_MULTI),
	CFG_SEC("tm", inner, CFGF_MULTI | CFGF_TITLE), CFG_SEC("tu", inner, CFGF_MULTI | CFGF_TITLE | CFGF_NO_TITLE_DUPES),
	CFG_SEC("nd", inner, CFGF_NODEFAULT), CFG_SEC("ts", inner, CFGF_TITLE), CFG_SEC("nest", deep, CFGF_NONE),
	CFG_SEC("mnest", deep, CFGF_MULTI), CFG_END()
};
static cfg_opt_t s_funcs[] = {
	CFG_INT("i", 5, CFGF_NONE), CFG_FUNC("fn", logfunc), CFG_FUNC("include", safe_include), CFG_STR_LIST("sl", NULL, CFGF_NONE),
	CFG_SEC("sec", fsec, CFGF_MULTI), CFG_END()
};
static cfg_opt_t s_ptrs[] = {
	CFG_INT("i", 5, CFGF_NONE), CFG_PTR_CB("p", NULL, CFGF_NONE, parse_ptr, free_ptr),
	CFG_PTR_LIST_CB("pl", NULL, CFGF_NONE, parse_ptr, free_ptr), CFG_PTR_CB("pn", NULL, CFGF_NONE, parse_ptr_static, NULL),
	CFG_SEC("sec", psec, CFGF_MULTI | CFGF_TITLE), CFG_END()
};
static cfg_opt_t s_keyval[] = {
	CFG_INT("i", 5, CFGF_NONE), CFG_SEC("kv", noopts, CFGF_KEYSTRVAL), CFG_SEC("kvn", NULL, CFGF_KEYSTRVAL),
	CFG_SEC("kvm", kvknown, CFGF_KEYSTRVAL | CFGF_MULTI | CFGF_TITLE), CFG_END()
};
static cfg_opt_t s_depr[] = {
	CFG_INT("i", 5, CFGF_NONE), CFG_INT("old", 1, CFGF_DEPRECATED), CFG_INT("gone", 2, CFGF_DEPRECATED | CFGF_DROP),
	CFG_STR_LIST("oldl", "{a}", CFGF_DEPRECATED), CFG_INT_LIST("gonel", "{1}", CFGF_DEPRECATED | CFGF_DROP),
	CFG_STR("last", "z", CFGF_DEPRECATED | CFGF_DROP), CFG_END()
};
static cfg_opt_t s_nodef[] = {
	CFG_INT("i", 5, CFGF_NONE), CFG_INT("ni", 0, CFGF_NODEFAULT), CFG_STR("ns", NULL, CFGF_NODEFAULT),
	CFG_INT_LIST("nl", "{1}", CFGF_NODEFAULT), CFG_FLOAT("nf", 0, CFGF_NODEFAULT), CFG_BOOL("nb", cfg_false, CFGF_NODEFAULT), CFG_END()
};
static cfg_opt_t vsec[] = { CFG_INT("x", 1, CFGF_NONE), CFG_END() };
static cfg_opt_t s_cb[] = {
	CFG_INT("i", 5, CFGF_NONE), CFG_INT_CB("pi", 0, CFGF_NODEFAULT, parse_int), CFG_INT_LIST_CB("pil", NULL, CFGF_NONE, parse_int),
	CFG_INT_LIST("vil", NULL, CFGF_NONE), CFG_SEC("vs", vsec, CFGF_MULTI), CFG_END()
};
static cfg_opt_t *schemas[] = { s_mixed, s_sections, s_funcs, s_ptrs, s_keyval, s_depr, s_nodef, s_cb };
#define NSCHEMAS (sizeof(schemas) / sizeof(schemas[0]))

static void put(const char *name, const char *content)
{
	char p[700];
	FILE *f;
	snprintf(p, sizeof p, "%s/%s", fxdir, name);
	f = fopen(p, "w");
	if (f) {
		fputs(content, f);
		fclose(f);
	}
}

int LLVMFuzzerInitialize(int *argc, char ***argv)
{
	const char *base = getenv("VT_FUZZ_WORK");
	int k;
	char name[64], body[128];
	(void)argc;
	(void)argv;
	snprintf(fxdir, sizeof fxdir, "%s/fxXXXXXX", base ? base : "/tmp");
	if (!mkdtemp(fxdir))
		abort();
	put("inc_ok.conf", "i = 11\n");
	put("inc_bad.conf", "i = notanumber\n");
	put("inc_empty.conf", "");
	put("inc_self.conf", "include(inc_self.conf)\n");
	put("inc_nonl.conf", "i = 12");
	put("inc_unterminated.conf", "s = \"abc");
	for (k = 0; k < 12; k++) {
		snprintf(name, sizeof name, "inc_deep%d.conf", k);
		if (k < 11)
			snprintf(body, sizeof body, "include(inc_deep%d.conf)\n", k + 1);
		else
			snprintf(body, sizeof body, "i = 13\n");
		put(name, body);
	}
	snprintf(body, sizeof body, "%s/inc_dir", fxdir);
	mkdir(body, 0777);
	if (chdir(fxdir))
		abort();
	out_fd = memfd_create("stdout", 0);
	fflush(stdout);
	dup2(out_fd, 1);
	return 0;
}

static void walk(cfg_t *cfg, int depth)
{
	unsigned int i, j, n = cfg_num(cfg);
	volatile long sink = 0;
	for (i = 0; i < n; i++) {
		cfg_opt_t *opt = cfg_getnopt(cfg, i);
		unsigned int sz = cfg_opt_size(opt);
		const char *nm = cfg_opt_name(opt);
		sink += (long)strlen(nm);
		if (cfg_opt_getcomment(opt))
			sink += (long)strlen(cfg_opt_getcomment(opt));
		for (j = 0; j < sz; j++) {
			switch (opt->type) {
			case CFGT_INT: sink += cfg_opt_getnint(opt, j); break;
			case CFGT_FLOAT: sink += cfg_opt_getnfloat(opt, j) > 0.5; break;
			case CFGT_BOOL: sink += cfg_opt_getnbool(opt, j); break;
			case CFGT_STR: { const char *s = cfg_opt_getnstr(opt, j); if (s) sink += (long)strlen(s); break; }
			case CFGT_PTR: { const char *s = cfg_opt_getnptr(opt, j); if (s) sink += (long)strlen(s); break; }
			case CFGT_SEC: {
				cfg_t *sec = cfg_opt_getnsec(opt, j);
				if (!sec)
					die("section value is NULL");
				if (cfg_title(sec))
					sink += (long)strlen(cfg_title(sec));
				if (depth < 64)
					walk(sec, depth + 1);
				break;
			}
			default: break;
			}
		}
	}
}

int LLVMFuzzerTestOneInput(const uint8_t *data, size_t size)
{
	cfg_t *cfg;
	cfg_flag_t flags = 0;
	char *text, *buf = NULL;
	size_t len = 0, i;
	int rc, route;
	FILE *fp;

	if (size < 2)
		return 0;
	cfg_yylex_destroy();
	cfg_include_stack_ptr = 0;
	if (data[1] & 1) flags |= CFGF_NOCASE;
	if (data[1] & 2) flags |= CFGF_IGNORE_UNKNOWN;
	if (data[1] & 4) flags |= CFGF_COMMENTS;
	route = (data[1] >> 3) & 3;
	cfg = cfg_init(schemas[data[0] % NSCHEMAS], flags);
	if (!cfg)
		die("cfg_init failed");
	cfg_set_error_function(cfg, errfunc);
	if (schemas[data[0] % NSCHEMAS] == s_cb) {
		cfg_set_validate_func(cfg, "vil", validate);
		cfg_set_validate_func(cfg, "vs", validate);
	}
	text = malloc(size - 1);
	memcpy(text, data + 2, size - 2);
	text[size - 2] = 0;
	for (i = 0; i + 2 < size; i++)
		if (!text[i])
			text[i] = ' ';
	if (route == 1) {
		fp = fmemopen(text, strlen(text) ? strlen(text) : 1, "r");
		rc = strlen(text) ? cfg_parse_fp(cfg, fp) : 0;
		fclose(fp);
	} else if (route == 2) {
		fp = fopen("fuzz_input.conf", "w");
		fputs(text, fp);
		fclose(fp);
		rc = cfg_parse(cfg, "fuzz_input.conf");
	} else {
		rc = cfg_parse_buf(cfg, text);
	}
	if (rc != CFG_SUCCESS && rc != CFG_PARSE_ERROR)
		die("parse returned neither success nor parse error");
	walk(cfg, 0);
	fp = open_memstream(&buf, &len);
	cfg_print(cfg, fp);
	fclose(fp);
	free(buf);
	rc = cfg_parse_buf(cfg, "");
	if (rc != CFG_SUCCESS)
		die("empty text rejected afterwards");
	rc = cfg_parse_buf(cfg, "i = 1\n");
	if (rc != CFG_SUCCESS || cfg_getint(cfg, "i") != 1)
		die("context unusable afterwards");
	walk(cfg, 0);
	cfg_free(cfg);
	free(text);
	if (live_ptrs != 0)
		die("pointer values not released exactly once");
	fflush(stdout);
	if (lseek(out_fd, 0, SEEK_END) != 0)
		die("library wrote to standard output");
	return 0;
}

/* libFuzzer target for C05: the fuzz input is a configuration text; when it is accepted, the printed configuration must be
 * accepted by a fresh context of the same schema, print to the identical text again (annotations off) and be a fix point. */
#define _GNU_SOURCE
#include <stdint.h>
#include <stdio.h>
#include <stdlib.h>
#include <string.h>
#include "confuse.h"

extern void cfg_yylex_destroy(void);
extern int cfg_include_stack_ptr;

static void die(const char *what, const char *a, const char *b)
{
	fprintf(stderr, "VT-ORACLE: %s\n--- first\n%s\n--- second\n%s\n", what, a ? a : "", b ? b : "");
	fflush(stderr);
	__builtin_trap();
}
static void errfunc(cfg_t *cfg, const char *fmt, va_list ap) { (void)cfg; (void)fmt; (void)ap; }

static cfg_opt_t deep[] = { CFG_STR("z", "zz", CFGF_NONE), CFG_STR_LIST("dl", "{a}", CFGF_NONE), CFG_END() };
static cfg_opt_t inner[] = { CFG_INT("x", 7, CFGF_NONE), CFG_STR("y", "why", CFGF_NONE), CFG_STR_LIST("zl", "{p}", CFGF_NONE),
			     CFG_SEC("deep", deep, CFGF_MULTI | CFGF_TITLE), CFG_END() };
static cfg_opt_t noopts[] = { CFG_END() };
static cfg_opt_t schema[] = {
	CFG_INT("i", 5, CFGF_NONE), CFG_FLOAT("f", 1.5, CFGF_NONE), CFG_BOOL("b", cfg_false, CFGF_NONE), CFG_STR("s", "dflt", CFGF_NONE),
	CFG_STR("sn", NULL, CFGF_NONE), CFG_STR("nd", NULL, CFGF_NODEFAULT), CFG_INT_LIST("il", "{10, 20}", CFGF_NONE),
	CFG_FLOAT_LIST("fl", NULL, CFGF_NONE), CFG_BOOL_LIST("bl", "{true}", CFGF_NONE), CFG_STR_LIST("sl", "{\"a\", b}", CFGF_NONE),
	CFG_SEC("single", inner, CFGF_NONE), CFG_SEC("tm", inner, CFGF_MULTI | CFGF_TITLE), CFG_SEC("multi", inner, CFGF_MULTI),
	CFG_SEC("kv", noopts, CFGF_KEYSTRVAL), CFG_END()
};

static char *print(cfg_t *cfg)
{
	char *buf = NULL;
	size_t len = 0;
	FILE *fp = open_memstream(&buf, &len);
	cfg_print(cfg, fp);
	fclose(fp);
	return buf;
}

int LLVMFuzzerTestOneInput(const uint8_t *data, size_t size)
{
	cfg_t *a, *b, *c;
	char *text, *p1, *p2, *p3;
	size_t i;

	if (size < 1)
		return 0;
	cfg_yylex_destroy();
	cfg_include_stack_ptr = 0;
	text = malloc(size + 1);
	memcpy(text, data, size);
	text[size] = 0;
	for (i = 0; i < size; i++)
		if (!text[i])
			text[i] = ' ';
	if (strstr(text, "${")) { /* the environment is not part of the state */
		free(text);
		return 0;
	}
	a = cfg_init(schema, CFGF_NONE);
	cfg_set_error_function(a, errfunc);
	if (cfg_parse_buf(a, text) != CFG_SUCCESS) {
		cfg_free(a);
		free(text);
		return 0;
	}
	{
		/* free-form keys are in the property's domain only when they are identifier-like */
		cfg_t *kv = cfg_getsec(a, "kv");
		unsigned int k, n = kv ? cfg_num(kv) : 0;
		for (k = 0; k < n; k++) {
			const char *nm = cfg_opt_name(cfg_getnopt(kv, k));
			if (!nm[0] || strspn(nm, "abcdefghijklmnopqrstuvwxyzABCDEFGHIJKLMNOPQRSTUVWXYZ0123456789_.-") != strlen(nm)) {
				cfg_free(a);
				free(text);
				return 0;
			}
		}
	}
	p1 = print(a);
	b = cfg_init(schema, CFGF_NONE);
	cfg_set_error_function(b, errfunc);
	if (cfg_parse_buf(b, p1) != CFG_SUCCESS)
		die("printed configuration rejected by the parser", text, p1);
	p2 = print(b);
	if (strcmp(p1, p2))
		die("second print differs from the first", p1, p2);
	c = cfg_init(schema, CFGF_NONE);
	cfg_set_error_function(c, errfunc);
	if (cfg_parse_buf(c, p2) != CFG_SUCCESS)
		die("second print rejected", p2, NULL);
	p3 = print(c);
	if (strcmp(p2, p3))
		die("no fix point", p2, p3);
	free(p1);
	free(p2);
	free(p3);
	cfg_free(a);
	cfg_free(b);
	cfg_free(c);
	free(text);
	return 0;
}

#!/bin/sh
# Build the executor for the current /repo tree (all variants) — offline, from files on disk only.
cd "$(dirname "$0")" || exit 2
mkdir -p build work evidence
python3-vt engine/build.py asan fast fuzz || exit 1
python3-vt -c "import hypothesis; print('hypothesis', hypothesis.__version__)" || exit 1
exit 0

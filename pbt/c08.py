"""C08 — a parse depends only on its own input, not on earlier parses."""
import itertools
import os

from hypothesis import strategies as st

from c02 import fixture_dir
from execclient import Script, hx, by_index
from langbatch import unhex_diag
from runner import Failure, Outcome, h64
from schema import (HAND, emit_schema, F_MULTI, F_TITLE, F_LIST, o_int, o_float, o_str, o_list, o_sec, o_func)

SCHEMA = [
    o_int("a", 1), o_str("s", "sd"), o_list("int", "l", "{1, 2}"), o_float("f", "0.5"),
    o_sec("sec", [o_int("x", 7), o_str("y", "why")], F_MULTI | F_TITLE), o_sec("single", [o_int("x", 7)]),
    o_func("include", "include"), o_func("fn"), o_func("nest", "nest"), o_func("nestfree", "nestfree"), o_list("int", "nl", None, 16), o_int("dep", 1, 512), o_list("str", "depl", "{x}", 512 | 1024),
    # sacrificial options: only aborting texts mention them; the comparison ignores them
    o_int("zi", 0), o_float("zf", "0"), o_str("zs", "z"), o_list("str", "zl", None),
    # a section whose instances can never be created: one of its defaults does not parse
    o_sec("zsec", [o_int("k", 1), o_list("int", "bad", "{1, 2")], F_MULTI),
    # two validated strings: the validation callback of the first parses a text into the other context (executor: names "nv...")
    o_str("nvs", "z", 0, 2), o_str("pvs", "z", 0, 2),
]
HAND["c08"] = SCHEMA
SACRIFICIAL = {"zi", "zf", "zs", "zl", "zsec", "nvs", "pvs"}
# an option table cfg_init() refuses (a default that does not parse)
BAD_SCHEMA = [o_int("a", 1), o_list("str", "l", "{a, b"), o_int("dep", 1, 512)]

EVENTS = [
    ("accepted", "parse", "a = 2\nl += 3\nsec t { x = 1 }\n"),
    ("accepted-2", "parse", "s = \"two words\"\nsingle { x = 8 }\nfn(p, q)\n"),
    ("accepted-deprecated", "parse", "dep = 3\n"),
    ("accepted-deprecated-list", "parse", "depl = {y}\ndep = 4\ndepl += w\n"),
    ("ends-in-dq", "abort", "zs = \"abc"),
    ("ends-in-dq-at-name", "abort", "\"abc def\nghi"),
    ("ends-in-sq", "abort", "zs = 'abc"),
    ("ends-in-comment", "abort", "/* abc\n def"),
    ("ends-in-comment-after-eq", "abort", "zs = /* abc"),
    ("bad-escape", "abort", "zs = \"a\\400b\"\n"),
    ("int-out-of-range", "abort", "zi = 99999999999999999999\n"),
    ("float-out-of-range", "abort", "zf = 1e999\n"),
    ("error-in-include", "abort", "include(\"c08_bad.conf\")\n"),
    ("include-self", "abort", "include(\"c08_self.conf\")\n"),
    ("include-missing", "abort", "include(\"c08_missing.conf\")\n"),
    ("include-unterminated", "abort", "include(\"c08_unterm.conf\")\n"),
    ("unknown-option", "abort", "zzz = 1\n"),
    ("backslash-at-end", "abort", "zs = \"abc\\"),
    ("ends-in-func-args", "abort", "fn(\"stale\","),
    ("ends-in-list", "abort", "zl = {p, q,"),
    ("ends-in-title", "abort", "sec \"tt\""),
    ("accepted-nodefault-list", "parse", "nl = {1, 2}\n"),
    ("ends-after-equal-sign", "abort", "nl ="),                 # (nl is no sacrificial option: nothing of this text is applied)
    ("ends-in-first-list-value", "abort", "nl = {zz"),
    ("accepted-include-via-searchpath", "parse", "include(\"c08_sp.conf\")\n"),
    ("read-error-in-sq", "abort-fail", "zs = 'abc"),
    ("read-error-in-dq", "abort-fail", "zs = \"abc"),
    ("read-error-plain", "abort-fail", "zi = 1\n"),
    ("read-error-then-syntax-error", "abort-fail", "}"),            # the stream fails while the offending token is still pending
    ("read-error-then-unknown-name", "abort-fail", "zi = 1\nzzz"),
    ("read-error-then-bad-value", "abort-fail", "zi = x1"),
    ("accepted-from-file", "parsefile", "single { x = 9 }\nsec ft { y = file }\n"),
    ("reinit", "reinit", None),
    ("switch", "switch", None),
    ("free-other", "free-other", None),
    # (the events below take part in all histories of length <= 2 and in the random ones, not in the exhaustive length 3)
    ("refused-section-default", "abort", "zsec { }\n"),
    ("refused-cfg_init", "abort-init", None),
]
CORE = 35
PROBES = [
    "a = 0x10 # c\nl = {4, 5,} // d\n/* e */ s = 'sq' f = 1.5\nsec \"t t\" { y = ${HOME:-h} }\nfn(a, \"b\")\nl += 6\n",
    "include(\"c08_deep0.conf\")\n",
    "a = 9223372036854775807\nf = 1e308\n",
    "s = \"open",
    "s = 'open",
    "a = 5 /* open",
    "a = zz\n",
    "a = 7\n",
    "single {\n x = zz\n}\n",
    "sec ft {\n y = ok\n x = zz\n}\n",
    "dep = 2\n",
    "depl += z\n# c\n",
    "dep = 5\n# c\ndepl = {}\n",
    "nl += {3}\nl += {9}\n",
    "include(\"c08_sp.conf\")\nfn(x, \"y z\")\n",     # found through the context's own search path (differs between the two contexts)
]
SP_PROBE = len(PROBES) - 1
FILES = {
    "c08_bad.conf": "zi = x\n", "c08_self.conf": "include(\"c08_self.conf\")\n", "c08_unterm.conf": "zs = \"never closed",
}
for _k in range(10):
    FILES["c08_deep%d.conf" % _k] = ("include(\"c08_deep%d.conf\")\n" % (_k + 1)) if _k < 9 else "s = bottom\n"


def strip(tree):
    if tree is None:
        return None
    return {"title": tree["title"], "opts": [{"n": o["n"], "v": [strip(v) if isinstance(v, dict) else v for v in o["v"]]}
                                            for o in tree["opts"] if bytes.fromhex(o["n"]).decode() not in SACRIFICIAL]}


class C08:
    id = "C08"
    level = "exploration"
    variants = ("asan",)
    rule = ("all histories of length <= 3 over %d events (the last two only up to length 2) (thorough adds 60000 random histories of length 3-12) (two accepted parses; parses ending inside "
            "\"...\", '...', /*...; bad escape; integer / float out of range; error inside an included file; self-including "
            "file; missing include; include of a file ending inside a string; unknown option; backslash as last byte; ends inside a function call / list / title; "
            "failing streams; an include resolved through the context's own search path; a section instance refused because one of its defaults does not parse; a refused cfg_init(); free + "
            "re-init; switch between two live contexts; free of the other context) followed by %d probes (every token kind, "
            "10-deep include chain, LONG_MAX, texts ending in each quoting state, a failing and a plain text); differential "
            "oracle: the same history with every aborting parse removed, run in a fresh process, must give identical return "
            "codes, diagnostics (file, line, count), callback invocations and trees (sacrificial options ignored) for every remaining parse and "
            "every probe. In addition eight directed texts in which a function callback parses into the other live context (or creates, uses and frees a context of its own) while the outer parse is "
            "inside an included file / a section: outer result, diagnostics and tree must equal those of the twin text with a plain "
            "function in that place; and five directed pairs of texts with a directory added to the search path in between (the later text's includes are found there "
            "whatever sections the earlier text entered). Non-trivial = history with >= 1 aborting parse; distinct = distinct histories" % (len(EVENTS), len(PROBES)))
    assumptions = ["aborting texts only mention sacrificial options (an aborted parse may leave earlier items applied)",
                   "each run is a fresh child process of the fork server (the scanner has never run in it)"]

    def script(self, events, only_probe=None):
        fx = fixture_dir()
        base = os.path.join(fx, "c08")
        s = Script()
        emit_schema(s, 0, SCHEMA)
        emit_schema(s, 1, BAD_SCHEMA)
        s.add("mkdir", hx(base))
        s.add("cwd", hx(base))
        s.add("env", hx("HOME"), hx("/home/x"))
        for n, c in FILES.items():
            s.add("mkfile", hx(os.path.join(base, n)), hx(c))
        for d, v in (("spA", "fromA"), ("spB", "fromB")):
            s.add("mkdir", hx(os.path.join(base, d)))
            s.add("mkfile", hx(os.path.join(base, d, "c08_sp.conf")), hx("s = %s\n" % v))
        real_add = s.add

        def add(*toks):
            i = real_add(*toks)
            if toks[0] == "init":
                # every context has its own search path: the common directory, then a private one
                real_add("searchpath", toks[1], hx(base))
                real_add("searchpath", toks[1], hx(os.path.join(base, "spA" if toks[1] == 1 else "spB")))
            return i
        s.add = add
        s.add("init", 1, 0, 0)
        s.add("init", 2, 0, 0)
        alive = {1: True, 2: True}
        cur = 1
        obs = []
        for name, kind, text in events:
            if kind in ("parse", "abort"):
                if not alive[cur]:
                    s.add("init", cur, 0, 0)
                    alive[cur] = True
                ip = s.add("parse_buf", cur, hx(text))
                if kind == "parse":
                    obs.append((name, ip, s.add("dump", cur)))
            elif kind == "abort-init":
                real_add("init", 3, 1, 0)       # fails: no context
            elif kind == "abort-fail":
                if not alive[cur]:
                    s.add("init", cur, 0, 0)
                    alive[cur] = True
                s.add("parse_fp_fail", cur, hx(text), len(text))      # the stream fails right after the last byte
            elif kind == "parsefile":
                if not alive[cur]:
                    s.add("init", cur, 0, 0)
                    alive[cur] = True
                fn = os.path.join(base, "c08_first.conf")
                s.add("mkfile", hx(fn), hx(text))
                ip = s.add("parse_file", cur, hx(fn))
                obs.append((name, ip, s.add("dump", cur)))
            elif kind == "reinit":
                if alive[cur]:
                    s.add("free", cur)
                s.add("init", cur, 0, 0)
                alive[cur] = True
            elif kind == "switch":
                cur = 3 - cur
                if not alive[cur]:
                    s.add("init", cur, 0, 0)
                    alive[cur] = True
            elif kind == "free-other":
                if alive[3 - cur]:
                    s.add("free", 3 - cur)
                    alive[3 - cur] = False
        if not alive[cur]:
            s.add("init", cur, 0, 0)
            alive[cur] = True
        for k, p in enumerate(PROBES):
            if only_probe is not None and k != only_probe:
                continue
            ip = s.add("parse_buf", cur, hx(p))
            obs.append(("probe%d" % k, ip, s.add("dump", cur)))
        for h in (1, 2):
            if alive[h]:
                s.add("free", h)
        ia = s.add("allocstat")
        self.last_cur = cur
        return s, obs, ia

    _alone = None

    @staticmethod
    def observe(e, dump_entry, k):
        """what a probe shows irrespective of the state it is parsed into: return code, diagnostics, function calls, and
        for the search-path probe the value it assigns"""
        calls = [(c["k"], c["opt"], c.get("argv")) for c in e.get("cb", [])]
        own = None
        if k == SP_PROBE and dump_entry is not None:
            own = [o["v"] for o in dump_entry["tree"]["opts"] if bytes.fromhex(o["n"]).decode() == "s"]
        return (e["rc"], [(f, l) for f, l, m in unhex_diag(e)], calls, own)

    def alone(self, get_ex, ctx):
        if C08._alone is None:
            C08._alone = {}
        if ctx not in C08._alone:
            out = []
            sw = [ev for ev in EVENTS if ev[1] == "switch"]
            for k in range(len(PROBES)):
                s, obs, ia = self.script(sw if ctx == 2 else [], only_probe=k)
                r = get_ex("asan", 10).run(s)
                t = by_index(r.trace)
                e = t.get(obs[0][1])
                out.append(self.observe(e, t.get(obs[0][2]), k) if e is not None else ("died", [], [], None))
            C08._alone[ctx] = out
        return C08._alone[ctx]

    # a parse into another live context from inside a callback: the outer parse must not notice ---------------------------
    NESTED = [
        # (main text, included files) with nest(2, <text for context 2>) somewhere; the twin has fn(...) there instead
        ("a = 2\nnest(2, \"a = 7\")\ns = after\nl += 5\n", {}),
        ("include(\"c08_n1.conf\")\nl += 5\nzz_error = 1\n", {"c08_n1.conf": "a = 3\nnest(2, \"a = 7\")\ns = inner\nsec t { x = 2 }\n"}),
        ("include(\"c08_n1.conf\")\nl += 5\n", {"c08_n1.conf": "a = 3\ninclude(\"c08_n2.conf\")\ns = mid\n", "c08_n2.conf": "f = 2.5\nnest(2, \"s = x\\nsec q { }\")\nsec t { x = 2 }\nl += 6\n"}),
        ("include(\"c08_n1.conf\")\ns = last\n", {"c08_n1.conf": "nest(2, \"include(\\\"c08_n2.conf\\\")\")\na = 4\nl += 7\n", "c08_n2.conf": "f = 1.5\n"}),
        ("include(\"c08_n1.conf\")\ns = last\n", {"c08_n1.conf": "a = 4\nnest(2, \"zs = 'unterminated\")\nl += 7\nsingle { x = 3 }\n"}),
        ("single {\n x = 4\n nest(2, \"a = 1\")\n}\ninclude(\"c08_n1.conf\")\n", {"c08_n1.conf": "sec u {\n nest(2, \"zzz\")\n y = in\n}\na = 9\n"}),
        # the callback creates, uses and frees a context of its own in the middle of the outer parse
        ("a = 2\nnestfree(\"a = 7\")\ns = after\nl += 5\n", {}),
        ("include(\"c08_n1.conf\")\nl += 5\n", {"c08_n1.conf": "a = 3\nnestfree(\"s = x\")\ns = inner\nsec t { x = 2 }\n"}),
    ]

    # the same with an outer input that fails (read error) while the token that triggers the callback is still pending
    NESTED_FAIL = ["a = 2\nnvs = abc", "single { x = 3 }\nnvs = 'q'\nl += 5\nnvs = abc", "nvs = abc"]

    def check_nested(self, case, get_ex):
        failing = "nested_fail" in case
        main, files = (self.NESTED_FAIL[case["nested_fail"]], {}) if failing else self.NESTED[case["nested"]]
        fx = fixture_dir()
        base = os.path.join(fx, "c08n")
        res = []
        for twin in (False, True):
            s = Script()
            emit_schema(s, 0, SCHEMA)
            s.add("mkdir", hx(base))
            s.add("cwd", hx(base))
            for n, c in files.items():
                s.add("mkfile", hx(os.path.join(base, n)), hx(c.replace("nestfree(", "fn(").replace("nest(", "fn(") if twin else c))
            s.add("init", 1, 0, 0)
            s.add("init", 2, 0, 0)
            if failing:
                tx = main.replace("nvs", "pvs") if twin else main
                ip = s.add("parse_fp_fail", 1, hx(tx), len(tx))
            else:
                ip = s.add("parse_buf", 1, hx(main.replace("nestfree(", "fn(").replace("nest(", "fn(") if twin else main))
            idd = s.add("dump", 1)
            ip2 = s.add("parse_buf", 1, hx(PROBES[0]))
            s.add("free", 1)
            s.add("free", 2)
            ia = s.add("allocstat")
            r = get_ex("asan", 10).run(s)
            res.append((r, by_index(r.trace), ip, idd, ip2, ia))
        (r1, t1, ip, idd, ip2, ia), (r2, t2, jp, jdd, jp2, ja) = res
        cl = ["nested-parse"]
        sample = {"main": main, "files": files}
        if not r2.clean:
            return Outcome(failure=Failure("reference-run-died/%s" % r2.death(), r2.stderr.decode("latin-1")[:1200]), classes=cl, nontrivial=True, sample=sample)
        if not r1.clean:
            return Outcome(failure=Failure("die/%s/nested-parse" % r1.death(), r1.stderr.decode("latin-1")[:1500]), classes=cl, nontrivial=True, sample=sample)
        fail = None
        inner = [c.get("nested_rc") for c in t1[ip].get("cb", []) if "nested_rc" in c]
        if any(rc != 0 for rc in inner):
            fail = Failure("nested-parse/inner-result-differs", "the (valid) text parsed into the other context from a callback returned %r; the outer input was %r" % (inner, main))
        for a, b, what in ((t1[ip], t2[jp], "outer parse"), (t1[ip2], t2[jp2], "next parse")):
            if fail:
                break
            da, db = [(f, l) for f, l, m in unhex_diag(a)], [(f, l) for f, l, m in unhex_diag(b)]
            ca = [(c["k"], c["opt"]) for c in a.get("cb", []) if c["opt"] != hx("nest")[1:]]
            cb = [(c["k"], c["opt"]) for c in b.get("cb", []) if c["opt"] != hx("fn")[1:] or True]
            if a["rc"] != b["rc"] or da != db:
                fail = Failure("nested-parse/%s-differs" % what.split(" ")[0], "%s: rc %d diagnostics %r; with a plain function instead of the nested parse: rc %d %r\nmain %r files %r" % (
                    what, a["rc"], unhex_diag(a), b["rc"], unhex_diag(b), main, files))
                break
        if fail is None and strip(t1[idd]["tree"]) != strip(t2[jdd]["tree"]):
            fail = Failure("nested-parse/tree-differs", "the outer context differs from the run with a plain function instead of the nested parse\n%r\nvs\n%r\nmain %r files %r" % (
                strip(t1[idd]["tree"]), strip(t2[jdd]["tree"]), main, files))
        if fail is None and (t1[ia]["incptr"] != 0 or t1[ia]["streams"] != 0 or t1[ia]["live"] != 0):
            fail = Failure("left-behind/nested-parse", "at the end include depth %d, open streams %d, live blocks %d" % (t1[ia]["incptr"], t1[ia]["streams"], t1[ia]["live"]))
        return Outcome(classes=cl, nontrivial=True, failure=fail, sample=sample)

    # a directory added to the search path between two parses: the later parse finds its includes there, whatever
    # sections the earlier parse entered -----------------------------------------------------------------------------
    LATE = [
        ("single { }\n", "single { include(\"c08_late.conf\") }\n"),
        ("single { x = 3 }\nsec t { }\n", "sec t { include(\"c08_late.conf\") }\nsingle { include(\"c08_late.conf\") }\n"),
        ("a = 2\n", "include(\"c08_late.conf\")\nsingle { include(\"c08_late.conf\") }\n"),
        ("single { x = 1 }\nsingle { x = 2 }\n", "single { x = 4 include(\"c08_late.conf\") }\n"),
        ("single { zz_error\n", "single { include(\"c08_late.conf\") }\n"),
    ]

    def check_late(self, case, get_ex):
        first, second = self.LATE[case["late"]]
        schema = [o for o in SCHEMA if o["n"] != "single"] + [o_sec("single", [o_int("x", 7), o_func("include", "include")])]
        schema = [dict(o, sub=o["sub"] + [o_func("include", "include")]) if o["n"] == "sec" else o for o in schema]
        base = os.path.join(fixture_dir(), "c08l")
        res = []
        for with_first in (True, False):
            s = Script()
            emit_schema(s, 0, schema)
            for d in ("", "early", "late"):
                s.add("mkdir", hx(os.path.join(base, d)))
            s.add("mkfile", hx(os.path.join(base, "late", "c08_late.conf")), hx("x = 42\n"))
            s.add("cwd", hx(base))
            s.add("init", 1, 0, 0)
            s.add("searchpath", 1, hx(os.path.join(base, "early")))
            if with_first:
                s.add("parse_buf", 1, hx(first))
            s.add("searchpath", 1, hx(os.path.join(base, "late")))
            ip = s.add("parse_buf", 1, hx(second))
            idd = s.add("dump", 1)
            s.add("free", 1)
            r = get_ex("asan", 10).run(s)
            res.append((r, by_index(r.trace), ip, idd))
        (r1, t1, ip, idd), (r2, t2, jp, jdd) = res
        cl = ["late-search-path"]
        sample = {"first": first, "second": second}
        if not r2.clean or not r1.clean:
            d = r2 if not r2.clean else r1
            return Outcome(failure=Failure("die/%s/late-search-path" % d.death(), d.stderr.decode("latin-1")[:1200]), classes=cl, nontrivial=True, sample=sample)
        fail = None
        a, b = t1[ip], t2[jp]
        if a["rc"] != b["rc"] or [(f, l) for f, l, m in unhex_diag(a)] != [(f, l) for f, l, m in unhex_diag(b)]:
            fail = Failure("late-search-path/rc-or-diagnostics-differ", "after %r and a directory added to the search path, %r gives rc %d %r; in a context that did not parse the first text: rc %d %r" % (
                first, second, a["rc"], unhex_diag(a), b["rc"], unhex_diag(b)))
        return Outcome(classes=cl, nontrivial=True, failure=fail, sample=sample)

    def check_case(self, case, get_ex):
        if "nested" in case or "nested_fail" in case:
            return self.check_nested(case, get_ex)
        if "late" in case:
            return self.check_late(case, get_ex)
        events = [EVENTS[k] for k in case["history"]]
        ref = [e for e in events if e[1] not in ("abort", "abort-fail", "abort-init")]
        s1, o1, a1 = self.script(events)
        cur1 = self.last_cur
        s2, o2, a2 = self.script(ref)
        r1 = get_ex("asan", 10).run(s1)
        r2 = get_ex("asan", 10).run(s2)
        names = [e[0] for e in events]
        aborts = [e[0] for e in events if e[1] in ("abort", "abort-fail", "abort-init")]
        cl = ["len%d" % len(events)] + ["abort/" + a for a in aborts]
        nt = bool(aborts)
        sample = {"history": names}
        if not r2.clean:
            return Outcome(failure=Failure("reference-run-died/%s" % r2.death(), "history %r\n%s" % ([e[0] for e in ref], r2.stderr.decode("latin-1")[:1500])),
                           classes=cl, nontrivial=nt, sample=sample)
        if not r1.clean:
            d = r1.death()
            return Outcome(failure=Failure("die/%s/%s" % (d, aborts[-1] if aborts else "none"), "history %r: %s\n%s" % (names, d, r1.stderr.decode("latin-1")[:1500])),
                           classes=cl, nontrivial=nt, sample=sample)
        t1, t2 = by_index(r1.trace), by_index(r2.trace)
        fail = None
        for (n1, ip1, id1), (n2, ip2, id2) in zip(o1, o2):
            e1, e2 = t1[ip1], t2[ip2]
            d1 = [(f, l) for f, l, m in unhex_diag(e1)]
            d2 = [(f, l) for f, l, m in unhex_diag(e2)]
            if e1["rc"] != e2["rc"]:
                fail = Failure("rc-differs/after-%s" % (aborts[-1] if aborts else "none"), "history %r: %s returned %d, in a fresh process without the aborted parses %d (diag %r vs %r)" % (
                    names, n1, e1["rc"], e2["rc"], unhex_diag(e1), unhex_diag(e2)))
                break
            if d1 != d2:
                fail = Failure("diagnostics-differ/after-%s" % (aborts[-1] if aborts else "none"), "history %r: %s diagnostics %r, reference %r" % (names, n1, unhex_diag(e1), unhex_diag(e2)))
                break
            c1 = [(c["k"], c["opt"], c.get("argv")) for c in e1.get("cb", [])]
            c2 = [(c["k"], c["opt"], c.get("argv")) for c in e2.get("cb", [])]
            if c1 != c2:
                fail = Failure("callbacks-differ/after-%s" % (aborts[-1] if aborts else "none"), "history %r: %s callback invocations %r, reference %r" % (names, n1, c1, c2))
                break
            if strip(t1[id1]["tree"]) != strip(t2[id2]["tree"]):
                fail = Failure("tree-differs/after-%s" % (aborts[-1] if aborts else "none"), "history %r: tree after %s differs from the reference run\n%r\nvs\n%r" % (
                    names, n1, strip(t1[id1]["tree"]), strip(t2[id2]["tree"])))
                break
        if fail is None:
            # return code and diagnostics of every probe do not depend on what was parsed before at all (the probe texts are
            # acceptable in every state): compare with the probe parsed alone into a fresh context of a fresh process
            alone = self.alone(get_ex, cur1)
            for k, (n1, ip1, id1) in enumerate(o1[-len(PROBES):]):
                e1 = t1[ip1]
                got = self.observe(e1, t1[id1], k)
                if got != alone[k]:
                    fail = Failure("probe-differs-from-fresh-context/probe%d" % k, "history %r: probe %d %r gives rc/diagnostics %r; alone in a fresh context %r" % (
                        names, k, PROBES[k], got, alone[k]))
                    break
        if fail is None:
            x1, x2 = t1[a1], t2[a2]
            if x1["incptr"] != 0 or x1["streams"] != 0 or x1["live"] != 0:
                fail = Failure("left-behind/after-%s" % (aborts[-1] if aborts else "none"), "history %r: at the end include depth %d, open streams %d, live blocks %d" % (
                    names, x1["incptr"], x1["streams"], x1["live"]))
        return Outcome(classes=cl, nontrivial=nt, failure=fail, sample=sample)

    def run(self, r):
        depth = 3      # (both tiers: 35 events make depth 4 about 1.5 million histories; thorough adds long random histories instead)
        cases = []
        for d in range(0, depth + 1):
            for h in itertools.product(range(len(EVENTS) if d <= 2 else CORE), repeat=d):
                cases.append({"history": list(h)})
        r.run_cases([{"nested": k} for k in range(len(self.NESTED))], chunksize=1)
        r.run_cases([{"late": k} for k in range(len(self.LATE))], chunksize=1)
        r.run_cases([{"nested_fail": k} for k in range(len(self.NESTED_FAIL))], chunksize=1)
        r.run_cases(cases, chunksize=20)
        r.exhaustive = True
        r.run_hypothesis(2500 if r.tier == "quick" else 60000)

    def strategy(self, tier):
        return st.builds(lambda h: {"history": h}, st.lists(st.integers(0, len(EVENTS) - 1), min_size=3, max_size=12))


PROP = C08()

"""Reference model of the configuration language and of the option store (DESIGN 4.3, Appendix A).

An interpreter over tokens written from the documentation and the property text; it is not a clone of the parser's
numbered states.  Decisions where the model follows the observed code are marked 'model follows code'."""
import copy

from model_lex import lex, Tok
from schema import (F_MULTI, F_LIST, F_NOCASE, F_TITLE, F_NODEFAULT, F_NO_TITLE_DUPES, F_RESET, F_IGNORE_UNKNOWN,
                    F_DEPRECATED, F_DROP, F_COMMENTS, F_MODIFIED, F_KEYSTRVAL, F_SIMPLE, CB_PARSE, CB_VALID, CB_VALID2, CB_COMMENT)

LONG_MAX = 2 ** 63 - 1
LONG_MIN = -2 ** 63


class Reject(Exception):
    def __init__(self, tok, why, grey=False, diag=True):
        Exception.__init__(self, why)
        self.tok = tok
        self.why = why
        self.grey = grey
        self.diag = diag


# --------------------------------------------------------------------------------------------
# value conversion (must-accept / must-reject / grey; DESIGN C04)
def conv_int(s):
    """-> ('ok', value) | ('bad',) | ('grey', set_of_values_or_None)"""
    import re
    if s is None:
        return ("bad",)
    if re.fullmatch(r"0x[0-9a-fA-F]+", s):
        v = int(s[2:], 16)
    elif re.fullmatch(r"0b[01]+", s):
        v = int(s[2:], 2)
    elif re.fullmatch(r"0[0-7]*", s):
        v = int(s, 8) if len(s) > 1 else 0
    elif re.fullmatch(r"-?[1-9][0-9]*", s) or s == "-0":
        v = int(s)
    else:
        return conv_int_grey(s)
    if LONG_MIN <= v <= LONG_MAX:
        return ("ok", v)
    return ("bad",)


def conv_int_grey(s):
    """tokens on which strtol's standard behaviour and a literal reading of the statement differ"""
    import re
    t = s.lstrip(" \t\n\x0b\x0c\r")
    vals = set()
    m = re.fullmatch(r"([+-]?)(.*)", t, re.S)
    sign, body = m.group(1), m.group(2)
    if s != t or sign == "+" or (sign == "-" and re.fullmatch(r"0[xXbB]?[0-9a-fA-F]*", body)):
        # leading blanks, explicit plus, sign before a prefix: whether such a token is a numeral at all is not decided by
        # the statement; if it is taken for one, its value is what the C library's strtol() with automatic radix reads
        v = None
        if re.fullmatch(r"0[xX][0-9a-fA-F]+", body):
            v = int(body[2:], 16)
        elif re.fullmatch(r"0[0-7]*", body):
            v = int(body, 8) if len(body) > 1 else 0
        elif re.fullmatch(r"[1-9][0-9]*", body):
            v = int(body)
        if v is not None:
            v = -v if sign == "-" else v
            if LONG_MIN <= v <= LONG_MAX:
                return ("grey", {v})
            return ("bad",)
    if re.fullmatch(r"0x0[xX][0-9a-fA-F]+", s):
        return ("grey", {int(s[4:], 16)})
    return ("bad",)


def conv_float(s):
    import re
    if s is None:
        return ("bad",)
    if re.fullmatch(r"-?([0-9]+\.?[0-9]*|\.[0-9]+)([eE][+-]?[0-9]+)?", s):
        try:
            v = float(s)
        except (ValueError, OverflowError):
            return ("bad",)
        if v in (float("inf"), float("-inf")):
            return ("bad",)
        if v == 0.0 and re.search(r"[1-9]", re.split(r"[eE]", s)[0]):
            return ("bad",)           # underflow to zero: the value would silently be truncated
        if v != 0.0 and abs(v) < 2.2250738585072014e-308:
            return ("grey", None)     # denormal
        return ("ok", v)
    t = s.strip(" \t\n\x0b\x0c\r")
    if s != t or re.fullmatch(r"[+-]?(inf(inity)?|nan(\([0-9a-zA-Z_]*\))?)", t, re.I) or re.fullmatch(r"[+-]?0[xX][0-9a-fA-F.]+([pP][+-]?[0-9]+)?", t) \
            or (t.startswith("+") and conv_float(t[1:])[0] != "bad"):
        if s != s.rstrip(" \t\n\x0b\x0c\r"):
            return ("bad",)      # trailing garbage is never accepted
        return ("grey", None)
    return ("bad",)


def conv_bool(s):
    if s is None:
        return ("bad",)
    l = s.lower()
    if l in ("true", "yes", "on"):
        return ("ok", 1)
    if l in ("false", "no", "off"):
        return ("ok", 0)
    return ("bad",)


def pure_int(v):
    """what the executor's value-parsing callback makes of a token for an integer option: a full long, for tokens of
    some lengths beyond 32 bits and negative (mirrors pure_int() in engine/cfgx.cc)"""
    b0 = ord(v[0]) if v else 0
    r = 7 * len(v) + b0
    if len(v) % 3 == 2:
        r += (b0 + 1) << 33
    if len(v) % 5 == 4:
        r = -r
    return r


# --------------------------------------------------------------------------------------------
class MOpt:
    """state of one option instance"""
    __slots__ = ("d", "vals", "reset", "modified", "comment", "grey", "dynamic")

    def __init__(self, d):
        self.d = d
        self.vals = []
        self.reset = False       # CFGF_RESET: still holds its declared defaults
        self.modified = False
        self.comment = None
        self.grey = False
        self.dynamic = False

    @property
    def kind(self):
        return self.d["k"]

    @property
    def is_list(self):
        return bool(self.d["f"] & F_LIST)


class MSec:
    __slots__ = ("name", "title", "opts", "flags")

    def __init__(self, name, title, flags):
        self.name = name
        self.title = title
        self.opts = []
        self.flags = flags

    def find(self, name):
        for o in self.opts:
            if self.flags & F_NOCASE:
                if o.d["n"].lower() == name.lower():
                    return o
            elif o.d["n"] == name:
                return o
        return None


class Model:
    """one context: schema + flags + current tree; parse() applies one text"""

    def __init__(self, schema, flags, env=None, files=None):
        self.schema = schema
        self.flags = flags
        self.env = env or {}
        self.files = files or {}      # name -> text, for include()
        self.cblog = []
        self.fail_at = 0              # which callback invocation fails (0 = none)
        self.cbseq = 0
        self.diags = 0                # diagnostics the text must produce although accepted (deprecated options)
        self.grey = False
        self.grey_other = False
        self.grey_num = 0
        self.root = self.new_section("root", None, schema, flags, init_phase=True)

    # ---- store -------------------------------------------------------------------------
    def new_section(self, name, title, decls, flags, init_phase=False):
        sec = MSec(name, title, flags)
        for d in decls or []:
            sec.opts.append(MOpt(d))
        for o in sec.opts:
            self.init_default(sec, o)
        return sec

    def init_default(self, sec, o):
        d = o.d
        f = d["f"]
        if f & F_NODEFAULT:
            return
        k = d["k"]
        if k == "sec":
            if not (f & F_MULTI):
                sflags = sec.flags | (F_KEYSTRVAL if f & F_KEYSTRVAL else 0)
                o.vals = [self.new_section(d["n"], None, d.get("sub"), sflags)]
                o.modified = True      # model follows code: cfg_setopt marks the option
            return
        if k == "func":
            return
        if d.get("cb", 0) & CB_COMMENT:
            o.comment = "default annotation"
        if (f & F_LIST) or k == "ptr":
            dv = d.get("d")
            if not dv:
                return
            # parsed default: "{a, b}" for lists
            toks = lex(dv, self.env)
            vals = [t.val for t in toks if t.kind == "STR"]
            o.vals = [self.convert(o, v, None, in_default=True) for v in vals]
            o.reset = True
            return
        dv = d.get("d")
        if k == "int":
            o.vals = [int(dv)]
        elif k == "float":
            o.vals = [float(dv)]
        elif k == "bool":
            o.vals = [int(dv)]
        elif k == "str":
            o.vals = [dv]           # may be None: one unset value
        o.reset = not (f & F_SIMPLE)    # a "simple" option has no declared default: the application's variable holds a value

    # ---- callbacks -----------------------------------------------------------------------
    def tick(self, kind, o, **kw):
        self.cbseq += 1
        e = {"seq": self.cbseq, "k": kind, "opt": o.d["n"]}
        e.update(kw)
        self.cblog.append(e)
        return self.fail_at and self.cbseq == self.fail_at

    def convert(self, o, text, tok, in_default=False):
        k = o.kind
        if o.d.get("cb", 0) & CB_PARSE:
            if self.tick("parse", o, arg=text):
                raise Reject(tok, "parse callback refuses")
            if k == "int":
                return pure_int(text)
            if k == "float":
                return len(text) + 0.5
            if k == "bool":
                return len(text) & 1
            if k == "str":
                if text == "noresult":
                    raise Reject(tok, "parse callback hands back no value")     # (executor's callback convention)
                return "<" + text + ">"
            if k == "ptr" and not (o.d.get("cb", 0) & 16):
                return "unowned"    # no release function: the executor hands out static storage
            return text             # ptr: the executor's block holds a copy of the text
        if k == "ptr":
            raise Reject(tok, "pointer option without parse callback")
        if k == "str":
            return text
        c = {"int": conv_int, "float": conv_float, "bool": conv_bool}[k](text)
        if c[0] == "ok":
            return c[1]
        if c[0] == "grey":
            self.grey = True
            if c[1] is None:
                o.grey = True
                self.grey_other = True
            else:
                self.grey_num += 1      # acceptance undecided, but if accepted the value is one of c[1]
            return ("grey", c[1])
        raise Reject(tok, "invalid %s value %r" % (k, text))

    def store(self, o, text, tok):
        """cfg_setopt semantics for a value option: convert first, then replace defaults / append"""
        v = self.convert(o, text, tok)
        if o.reset:
            o.vals = []
            o.reset = False
        if o.is_list or not o.vals:
            o.vals.append(v)
        else:
            o.vals[0] = v
        o.modified = True

    def validate(self, o, tok):
        if o.d.get("cb", 0) & CB_VALID:
            if self.tick("valid", o, snap=list(o.vals) if o.kind != "sec" else len(o.vals)):
                raise Reject(tok, "validation callback refuses")

    # ---- parser --------------------------------------------------------------------------
    def parse(self, text, filename="[buf]"):
        """apply one text.  returns dict(accept, tok, why, grey, file, line); the tree is self.root"""
        self.diags = 0
        self.marks = []
        self.grey = False
        self.grey_other = False
        self.grey_num = 0
        self.cur_file = filename
        toks = lex(text, self.env)
        self.stream = [(t, filename) for t in toks]
        self.pos = 0
        self.include_depth = 0
        try:
            self.body(self.root, 0)
            return {"accept": True, "grey": self.grey, "diags": self.diags,
                    "grey_only_numerals": self.grey and self.grey_num > 0 and not self.grey_other}
        except Reject as r:
            t = r.tok
            fil = None
            line = None
            if t is not None:
                for (tt, ff) in self.stream:
                    if tt is t:
                        fil = ff
                line = t.line
            return {"accept": False, "tok": t, "why": r.why, "grey": r.grey or self.grey, "file": fil, "line": line,
                    "diag": r.diag}

    def peek(self):
        return self.stream[self.pos][0]

    def next(self, skip_comments=True):
        t = self.stream[self.pos][0]
        if t.grey and t.kind == "EOF":
            self.grey = True
            self.grey_other = True
        if t.kind not in ("EOF", "ERR"):
            self.pos += 1
        elif t.kind == "EOF" and self.pos + 1 < len(self.stream):
            # end of an included file: continue with the including source
            self.pos += 1
            self.include_depth -= 1
            return self.next(skip_comments)
        if t.kind == "ERR":
            raise Reject(t, "lexical error: %s" % t.val)
        return t

    def next_nc(self):
        """next token with comments being transparent (property C15)"""
        while True:
            t = self.next()
            if t.kind != "COMMENT":
                return t

    def deprecated(self, o):
        if o is not None and o.d["f"] & F_DEPRECATED and o.kind != "sec":
            self.diags += 1
            if o.d["f"] & F_DROP:
                o.vals = []
                # model follows code: cfg_free_value() releases the annotation unless the option still has RESET
                if not o.reset:
                    o.comment = None

    def body(self, sec, level, path=()):
        pending = None        # last comment seen (annotation for the next assignment)
        last = None           # option of the previous item (deprecated handling happens when the next token arrives)
        while True:
            if self.pos < len(self.stream):
                t0, f0 = self.stream[self.pos]
                # item boundary: (offset, file, section flags, section path, nesting level)
                self.marks.append({"off": t0.start, "file": f0, "flags": sec.flags, "path": path, "level": level,
                                   "incdepth": self.include_depth, "kind": t0.kind, "name": t0.val if t0.kind == "STR" else None})
            t = self.next()
            if t.kind == "COMMENT":
                if sec.flags & F_COMMENTS:
                    pending = t.val
                continue
            self.deprecated(last)
            last = None
            if t.kind == "EOF":
                if level > 0:
                    raise Reject(t, "end of input inside a section body")
                return
            if t.kind == "}":
                if level == 0:
                    raise Reject(t, "unexpected closing brace")
                return t
            if t.kind != "STR":
                raise Reject(t, "unexpected token %s" % t.kind)
            name = t.val
            o = sec.find(name) if (name and "|" not in name and "=" not in name) else None
            if name and ("|" in name or "=" in name):
                self.grey = True          # names are resolved through the path syntax: not defined by the language
                self.grey_other = True
            if o is None:
                if sec.flags & F_IGNORE_UNKNOWN:
                    pending = None
                    self.skip_unknown(t)
                    continue
                if sec.flags & F_KEYSTRVAL and not name:
                    raise Reject(t, "empty key name", grey=True)
                if sec.flags & F_KEYSTRVAL:
                    o = MOpt({"k": "str", "n": name, "f": 0, "d": None, "cb": 0})
                    o.dynamic = True
                    sec.opts.append(o)
                else:
                    raise Reject(t, "no such option %r" % name)
            last = o
            k = o.kind
            if k == "sec":
                title = None
                if o.d["f"] & F_TITLE:
                    tt = self.next_nc()
                    if tt.kind != "STR":
                        raise Reject(tt, "missing title")
                    title = tt.val
                    if tt.grey:
                        self.grey = True
                        self.grey_other = True
                b = self.next_nc()
                if b.kind != "{":
                    raise Reject(b, "missing opening brace")
                inst = self.open_section(sec, o, title, b)
                closing = self.body(inst, level + 1, path + ((o.d["n"], o.vals.index(inst)),))
                self.validate(o, closing or b)      # the section's validation callback runs at its closing brace
            elif k == "func":
                self.call(sec, o)
            else:
                pending = self.assign(sec, o, pending)

    def open_section(self, sec, o, title, tok):
        f = o.d["f"]
        sflags = sec.flags | (F_KEYSTRVAL if f & F_KEYSTRVAL else 0)
        if not (f & F_MULTI):
            if o.vals:
                o.modified = True
                return o.vals[0]           # re-opened single section: merged
            inst = self.new_section(o.d["n"], title, o.d.get("sub"), sflags)
            o.vals.append(inst)
            o.modified = True
            return inst
        if f & F_TITLE:
            for i, s in enumerate(o.vals):
                same = (s.title.lower() == title.lower()) if (sec.flags & F_NOCASE) else (s.title == title)
                if same:
                    if f & F_NO_TITLE_DUPES:
                        raise Reject(tok, "duplicate title %r" % title)
                    inst = self.new_section(o.d["n"], title, o.d.get("sub"), sflags)
                    o.vals[i] = inst       # a repeated title replaces that section in place
                    o.modified = True
                    return inst
        inst = self.new_section(o.d["n"], title, o.d.get("sub"), sflags)
        o.vals.append(inst)
        o.modified = True
        return inst

    def assign(self, sec, o, pending):
        t = self.next_nc()
        if t.kind == "+":
            if not o.is_list:
                raise Reject(t, "append to non-list")
            o.reset = False
        elif t.kind == "=":
            o.reset = True           # '=' replaces: the old values go when the first new one arrives
        else:
            raise Reject(t, "missing equal sign")
        o.modified = True
        if not o.is_list:
            v = self.next_nc()
            if v.kind != "STR":
                raise Reject(v, "expected a value")
            if v.grey:
                o.grey = True
            self.store(o, v.val, v)
            self.validate(o, v)
            if pending is not None:
                o.comment = pending
                pending = None
            return pending
        v = self.next_nc()
        if v.kind == "STR":
            if v.grey:
                o.grey = True
            self.store(o, v.val, v)
            self.validate(o, v)
            if pending is not None:   # a list assigned one value without braces is a non-empty list like any other
                o.comment = pending
                pending = None
            return pending
        if v.kind != "{":
            raise Reject(v, "expected a value or a list")
        n = 0
        while True:
            e = self.next_nc()
            if e.kind == "}":
                if n == 0 and o.reset:
                    o.vals = []       # '= {}' empties the list (model follows code: RESET stays set)
                return pending        # (after a trailing comma no further validation call is made)
            if e.kind != "STR":
                raise Reject(e, "expected a list element")
            if e.grey:
                o.grey = True
            self.store(o, e.val, e)
            self.validate(o, e)
            if pending is not None:
                o.comment = pending
                pending = None
            n += 1
            s = self.next_nc()
            if s.kind == "}":
                self.validate(o, s)
                return pending
            if s.kind != ",":
                raise Reject(s, "expected ',' or '}'")

    def call(self, sec, o):
        p = self.next_nc()
        if p.kind != "(":
            raise Reject(p, "missing parenthesis")
        args = []
        while True:
            a = self.next_nc()
            if a.kind == ")":
                break
            if a.kind != "STR":
                raise Reject(a, "syntax error in call")
            args.append(a.val)
            s = self.next_nc()
            if s.kind == ")":
                a = s
                break
            if s.kind != ",":
                raise Reject(s, "syntax error in call")
        close = a
        if o.d.get("d") == "include":
            if len(args) != 1:
                raise Reject(close, "wrong number of arguments to include")
            self.include(args[0], close)
            return
        if self.tick("func", o, argv=list(args)):
            raise Reject(close, "function fails")

    def include(self, name, tok):
        if self.include_depth >= 10:
            raise Reject(tok, "includes nested too deeply")
        if name not in self.files or self.files[name] is None:
            raise Reject(tok, "cannot open include file")
        sub = lex(self.files[name], self.env)
        self.include_depth += 1
        self.stream[self.pos:self.pos] = [(t, name) for t in sub]

    def skip_unknown(self, name_tok):
        """one well-formed unknown item; anything else is rejected (grey: the property defines only well-formed items)"""
        t = self.next_nc()
        if t.kind in ("=", "+"):
            v = self.next_nc()
            if v.kind == "STR":
                return
            if v.kind != "{":
                raise Reject(v, "malformed unknown item", grey=True)
            while True:
                e = self.next()
                if e.kind == "}":
                    return
                if e.kind == "EOF":
                    raise Reject(e, "end of input in unknown list", grey=True)
                if e.kind not in ("STR", ",", "COMMENT"):
                    self.grey = True
                    self.grey_other = True
        elif t.kind == "(":
            while True:
                e = self.next()
                if e.kind == ")":
                    return
                if e.kind == "EOF":
                    raise Reject(e, "end of input in unknown call", grey=True)
                if e.kind not in ("STR", ",", "COMMENT"):
                    self.grey = True
                    self.grey_other = True
        elif t.kind in ("{", "STR"):
            if t.kind == "STR":
                b = self.next_nc()
                if b.kind != "{":
                    raise Reject(b, "malformed unknown item", grey=True)
            depth = 1
            while depth:
                e = self.next()
                if e.kind == "{":
                    depth += 1
                elif e.kind == "}":
                    depth -= 1
                elif e.kind == "EOF":
                    raise Reject(e, "end of input in unknown section", grey=True)
        else:
            raise Reject(t, "malformed unknown item", grey=True)


# --------------------------------------------------------------------------------------------
# comparison with an executor dump
def unhex(v):
    return None if v is None else bytes.fromhex(v).decode("latin-1")


def dump_to_plain(d):
    """executor dump (hex strings) -> plain python structure"""
    if d is None:
        return None
    return {"name": unhex(d["name"]), "title": unhex(d["title"]),
            "opts": [{"n": unhex(o["n"]), "t": o["t"], "f": o["f"], "c": unhex(o["c"]),
                      "v": [dump_to_plain(v) if isinstance(v, dict) else v for v in o["v"]]} for o in d["opts"]]}


def compare(msec, dsec, path="", title_matters=True, flags_too=False):
    """returns None or a description of the first difference between model section and dumped section"""
    if dsec is None:
        return "%s: section missing in dump" % path
    if len(msec.opts) != len(dsec["opts"]):
        return "%s: %d options in model, %d in dump (%s)" % (path, len(msec.opts), len(dsec["opts"]), [o["n"] for o in dsec["opts"]])
    for mo, do in zip(msec.opts, dsec["opts"]):
        p = "%s/%s" % (path, mo.d["n"])
        if mo.d["n"] != do["n"]:
            return "%s: name %r in dump" % (p, do["n"])
        if mo.kind == "func":
            continue
        if len(mo.vals) != len(do["v"]):
            return "%s: %d values in model %r, %d in dump %r" % (p, len(mo.vals), short(mo.vals), len(do["v"]), short(do["v"]))
        if mo.grey:
            continue
        for i, (mv, dv) in enumerate(zip(mo.vals, do["v"])):
            if mo.kind == "sec":
                if title_matters and (mo.d["f"] & F_TITLE) and (mo.d["f"] & F_MULTI) and mv.title != dv["title"]:
                    return "%s[%d]: title %r in model, %r in dump" % (p, i, mv.title, dv["title"])
                r = compare(mv, dv, "%s[%d]" % (p, i), title_matters, flags_too)
                if r:
                    return r
            elif mo.kind == "float":
                if isinstance(mv, tuple):
                    continue
                got = float.fromhex(dv) if isinstance(dv, str) else dv
                if got != mv:
                    return "%s[%d]: float %r in model, %r in dump" % (p, i, mv, got)
            elif mo.kind in ("str", "ptr"):
                got = unhex(dv) if dv not in (None, "dead") else dv
                if got != mv:
                    return "%s[%d]: %r in model, %r in dump" % (p, i, mv, got)
            else:
                if isinstance(mv, tuple):
                    if mv[1] is not None and dv not in mv[1]:
                        return "%s[%d]: grey value %r not in %r" % (p, i, dv, mv[1])
                    continue
                if mv != dv:
                    return "%s[%d]: %r in model, %r in dump" % (p, i, mv, dv)
        if flags_too and mo.kind not in ("sec", "func"):
            if bool(do["f"] & F_MODIFIED) != mo.modified:
                return "%s: MODIFIED %s in model, flags %#x in dump" % (p, mo.modified, do["f"])
    return None


def short(v):
    s = repr([x if not isinstance(x, (MSec, dict)) else "<sec>" for x in v])
    return s[:200]


def plain_dump(d):
    """executor dump with hex decoded, for comparison between two runs"""
    return dump_to_plain(d)

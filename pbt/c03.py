"""C03 — string, escape, environment and comment lexing decode as specified."""
import itertools

from hypothesis import strategies as st

from execclient import Script, hx, by_index
from model_lang import Model, compare, dump_to_plain
from runner import Failure, Outcome, h64
from schema import emit_schema, o_str, o_func

SCHEMA = [o_str("s", "S0"), o_str("t", "T0"), o_func("include", "include")]
INC = "c03_inc.conf"
LONGNAME = "L" * 260
ENV = {"a": "VAL", "e": "", "m": "q\"\\${'}\nz", LONGNAME: "LONGV", "L" * 255: "V255", "L" * 256: "V256",
       "g": "G" * 100, "g31": "g" * 31, "g32": "g" * 32, "g33": "g" * 33, "g300": "h" * 300, "g5000": "k" * 5000}
ALPHA = {
    "dq": ["a", "n", "x", "e", "0", "1", "7", "8", "\\", "\"", "'", "$", "{", "}", ":", "-", " ", "\n", "\r", "#", "/", "*", "=", "\xe9"],
    "sq": ["a", "n", "\\", "\"", "'", "$", "{", "}", " ", "\n", "#", "/", "*", "=", "\xe9"],
    "bare": ["a", "1", "\\", "\"", "'", "$", "{", "}", ":", "-", " ", "\n", "#", "/", "*", "=", ",", "\xe9"],
}
SPECIAL = set("\\\"'${}#/*")
ENV_FRAGS = ["${a}", "${n}", "${n:-d}", "${a:-d}", "${e}", "${e:-d}", "${n:d}", "${n:-}", "${}", "${:-d}", "${m}", "${n:-${a}}",
             "${n:-a b}", "${a", "$a", "$", "${n:-\"}", "${n:-'}", "${a}${a}", "${n:-\\n}", "${g}",
             "${n:-a:b}", "${n:-:}", "${n:-x:-y}", "${a:-x:-y}", "${n:-http://h:80}", "${n:-a-b}", "${n:--}", "${n:-:-}"]
ESC_FRAGS = ["\\n", "\\t", "\\r", "\\b", "\\f", "\\a", "\\e", "\\v", "\\\\", "\\\"", "\\'", "\\q", "\\$", "\\{", "\\ ", "\\\n", "\\0",
             "\\7", "\\07", "\\007", "\\0007", "\\101", "\\377", "\\400", "\\777", "\\8", "\\18", "\\1234", "\\x41", "\\x4", "\\x414",
             "\\xg", "\\x", "\\x00", "\\xff", "\\xFF", "\\X41", "\\N"]
MISC_FRAGS = ["/* a * b */", "/** doc */", "/*** box ***/", "/* *p */", "/* a\n * b\n */", "a", "b c", "\r\n", "\n\r", "\x0b", "\x0c", "\n", "\t", "#", "//", "/*", "*/", "/* c */", "# c\n", "// c\n", "\"", "'", "{", "}", "=", ",", "(", ")", "+=",
              "+", "*", "\r", "\xe9", "\x01", "\x7f", "\xff", ";", "|", ":-"]


def embed_inc(ctx, lit):
    """the literal as the last thing of an included file: (main text, {file: text})"""
    return "include(\"%s\")\nt = END\n" % INC, {INC: embed(ctx.split("@")[0], lit)[:-len("t = END\n")]}


def embed(ctx, lit):
    if ctx == "dq":
        return "s = \"" + lit + "\"\nt = END\n"
    if ctx == "sq":
        return "s = '" + lit + "'\nt = END\n"
    return "s = " + lit + "\nt = END\n"


def classify(ctx, lit):
    c = []
    if "\\" in lit:
        c.append(ctx + "/backslash")
    if "${" in lit:
        c.append(ctx + "/env")
    if any(x in lit for x in ("#", "//", "/*")):
        c.append(ctx + "/comment-marker")
    if "\"" in lit or "'" in lit:
        c.append(ctx + "/quote")
    return c


class C03:
    id = "C03"
    level = "exploration"
    variants = ("fast", "asan")
    rule = ("every literal over the byte classes of each quoting context (double-quoted body: 23 classes, single-quoted "
            "body: 15, unquoted text: 18) up to length 4 (quick) / 5 (thorough) is embedded as `s = <literal>\\nt = END` and "
            "parsed with variables a=VAL, e=<empty>, m=<meta characters>, g*=<31..5000 bytes>, n unset; plus all concatenations of up to 2 "
            "(quick) / 3 (thorough) fragments from pools of escape, substitution and comment forms, plus random longer "
            "literals; the literals up to length 3 and the fragment pairs also as the tail of an included file. Oracle: an independent lexer+language model predicts return code and the exact bytes of s and t. "
            "Non-trivial = literal contains a backslash, $, quote or comment marker; distinct = distinct (context, literal)")
    assumptions = [
        "grey zone (DESIGN C03): unterminated \"... and /*... at end of input, NUL-denoting escapes, set-but-empty variable "
        "with a default, newlines inside ${...}: acceptance/value not judged",
        "bulk enumeration runs on the UBSan-only build in batches of 400 literals per child; every disagreement is "
        "re-run alone on the ASan build before it is reported",
    ]

    def expected(self, text, files=None):
        m = Model(SCHEMA, 0, env=ENV, files=files)
        r = m.parse(text)
        return m, r

    def run_batch(self, ex, ctx, lits):
        s = Script()
        emit_schema(s, 0, SCHEMA)
        for k, v in ENV.items():
            s.add("env", hx(k), hx(v))
        s.add("env", hx("n"), "~")
        idx = []
        if "@" in ctx:
            import os
            from c02 import fixture_dir
            s.add("cwd", hx(fixture_dir()))
        for lit in lits:
            s.add("newcase")
            s.add("init", 1, 0, 0)
            if "@" in ctx:
                main, files = embed_inc(ctx, lit)
                s.add("mkfile", hx(os.path.join(fixture_dir(), INC)), hx(files[INC]))
                ip = s.add("parse_buf", 1, hx(main))
                idd = s.add("dump", 1)
                idx.append((ip, idd))
                continue
            ip = s.add("parse_buf", 1, hx(embed(ctx, lit)))
            idd = s.add("dump", 1)
            idx.append((ip, idd))
        s.add("newcase")
        r = ex.run(s, cpu=30, wall=120)
        return r, idx

    def judge(self, ctx, lit, t, ip, idd):
        if "@" in ctx:
            text, files = embed_inc(ctx, lit)
            m, exp = self.expected(text, files)
            text = "%s with %s = %r" % (text, INC, files[INC])
        else:
            text = embed(ctx, lit)
            m, exp = self.expected(text)
        if ip not in t or idd not in t:
            return "no-result", "executor produced no result for this literal"
        rc = t[ip]["rc"]
        if exp.get("grey"):
            return None, None
        if exp["accept"] != (rc == 0):
            return ("verdict/%s/%s" % (ctx, "accepted-invalid" if rc == 0 else "rejected-valid"),
                    "text %r: model %s (%s), parse returned %d" % (text, "accepts" if exp["accept"] else "rejects",
                                                                   exp.get("why"), rc))
        if rc == 0:
            d = compare(m.root, dump_to_plain(t[idd]["tree"]))
            if d:
                return "value/%s" % ctx, "text %r: %s" % (text, d)
        return None, None

    def check_case(self, case, get_ex):
        ctx, lits = case["ctx"], case["lits"]
        single = len(lits) == 1
        r, idx = self.run_batch(get_ex("asan" if single else "fast"), ctx, lits)
        t = by_index(r.trace)
        keys, cc, fails = [], {}, []
        crashed = False
        for lit, (ip, idd) in zip(lits, idx):
            cl = classify(ctx, lit)
            for c in cl:
                cc[c] = cc.get(c, 0) + 1
            if cl:
                keys.append(h64(ctx + "\x00" + lit))
            sig, msg = self.judge(ctx, lit, t, ip, idd)
            if sig is None:
                continue
            if sig == "no-result" and not single:
                if crashed:
                    continue        # the child died earlier in this batch: only the first victim is re-run and reported
                crashed = True
            if single:
                if sig == "no-result":
                    sig = "die/%s" % r.death()
                    msg = "child died: %s\n%s" % (r.death(), r.stderr.decode("latin-1")[:1500])
                fails.append(Failure(sig, msg, {"ctx": ctx, "lits": [lit]}))
            else:
                # re-run alone on the ASan build
                r1, idx1 = self.run_batch(get_ex("asan"), ctx, [lit])
                t1 = by_index(r1.trace)
                sig1, msg1 = self.judge(ctx, lit, t1, idx1[0][0], idx1[0][1])
                if sig1 == "no-result":
                    sig1 = "die/%s" % r1.death()
                    msg1 = "child died: %s\n%s" % (r1.death(), r1.stderr.decode("latin-1")[:1500])
                if sig1:
                    fails.append(Failure(sig1, msg1, {"ctx": ctx, "lits": [lit]}))
        first = fails[0] if fails else None
        return Outcome(count=len(lits), keys=keys, class_counts=cc, failure=first, failures=fails[1:6],
                       nontrivial=bool(keys), sample={"ctx": ctx, "literal": lits[len(lits) // 2], "text": embed(ctx.split("@")[0], lits[len(lits) // 2])})

    def run(self, r):
        L = 4 if r.tier == "quick" else 5
        B = 400
        cases = []
        for ctx, alpha in ALPHA.items():
            buf = []
            for n in range(0, L + 1):
                for tup in itertools.product(alpha, repeat=n):
                    buf.append("".join(tup))
                    if len(buf) == B:
                        cases.append({"ctx": ctx, "lits": buf})
                        buf = []
            if buf:
                cases.append({"ctx": ctx, "lits": buf})
        frags = ENV_FRAGS + ESC_FRAGS + MISC_FRAGS
        depth = 2 if r.tier == "quick" else 3
        for ctx in ALPHA:
            buf = []
            for n in range(1, depth + 1):
                for tup in itertools.product(frags, repeat=n):
                    if n == 3 and not (tup[0] in ENV_FRAGS or tup[0] in ESC_FRAGS):
                        continue
                    buf.append("".join(tup))
                    if len(buf) == B:
                        cases.append({"ctx": ctx, "lits": buf})
                        buf = []
            if buf:
                cases.append({"ctx": ctx, "lits": buf})
        # the same literals as the tail of an included file (a string or comment cannot run on into the includer): all
        # literals up to length 3, all fragments and pairs of fragments
        for ctx, alpha in ALPHA.items():
            buf = ["".join(tup) for n in range(0, 4) for tup in itertools.product(alpha, repeat=n)]
            buf += ["".join(tup) for n in (1, 2) for tup in itertools.product(frags, repeat=n)]
            for k in range(0, len(buf), B):
                cases.append({"ctx": ctx + "@inc", "lits": buf[k:k + B]})
        # long substitutions (name / default at and beyond typical fixed buffer sizes)
        longs = []
        for k in (30, 31, 32, 33, 63, 64, 65, 127, 128, 129, 250, 253, 254, 255, 256, 257, 258, 300, 1023, 1024, 1025, 4096, 70000):
            longs += ["${n:-" + "d" * k + "}", "x${n:-" + "d" * k + "}y", "${" + "L" * k + "}", "${" + "L" * k + ":-dflt}", "${a:-" + "d" * k + "}",
                      "d" * k, "\\n" * k, "${a}" * min(k, 2000)]
        longs += ["${g31}", "${g32}", "${g33}", "x${g300}y", "${g5000}", "${g}${g}${g}", "a${g32}", "ab${g31}${g33}"]
        for ctx in ALPHA:
            cases.append({"ctx": ctx, "lits": longs})
        r.run_cases(cases, chunksize=2)
        r.exhaustive = True
        r.run_hypothesis(400 if r.tier == "quick" else 6000)

    def strategy(self, tier):
        frag = st.sampled_from(ENV_FRAGS + ESC_FRAGS + MISC_FRAGS) | st.text(
            alphabet=st.characters(min_codepoint=1, max_codepoint=255), min_size=1, max_size=4)

        @st.composite
        def case(draw):
            ctx = draw(st.sampled_from(["dq", "sq", "bare", "dq@inc", "sq@inc", "bare@inc"]))
            lits = ["".join(draw(st.lists(frag, min_size=3, max_size=8))) for _ in range(50)]
            return {"ctx": ctx, "lits": lits}
        return case()


PROP = C03()

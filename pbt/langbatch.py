"""Batched execution of (flags, text, files, ...) sub-cases that share one schema; used by C06, C12, C13, C14, C15."""
import os

from c02 import fixture_dir
from execclient import Script, hx, by_index
from schema import emit_schema


def run_subs(get_ex, schema, subs, variant="asan", dump=True, printit=False, cpu=20):
    """subs: list of dict(flags=int, text=str, files={name: text}, cbfail=int|None, env={}, pre=[script lines])
    returns (result, [dict(parse=entry, dump=entry, print=entry)])"""
    fx = fixture_dir()
    s = Script()
    emit_schema(s, 0, schema)
    s.add("cwd", hx(fx))
    marks = []
    for n, sub in enumerate(subs):
        s.add("newcase")
        for name, content in (sub.get("files") or {}).items():
            if content is not None:
                s.add("mkfile", hx(os.path.join(fx, name)), hx(content))
        s.add("init", 1, 0, sub.get("flags", 0))
        for line in sub.get("pre", []):
            s.add(*line)
        if sub.get("cbfail"):
            s.add("cbfail", sub["cbfail"])
        else:
            s.add("cbfail", 0)
        if sub.get("via") == "file":
            fn = os.path.join(fx, "main_input.conf")
            s.add("mkfile", hx(fn), hx(sub["text"]))
            ip = s.add("parse_file", 1, hx(fn))
        else:
            ip = s.add("parse_buf", 1, hx(sub["text"]))
        idd = s.add("dump", 1) if dump else None
        ipr = s.add("print", 1) if printit else None
        ia = s.add("allocstat")
        marks.append({"parse": ip, "dump": idd, "print": ipr, "alloc": ia})
    s.add("newcase")
    r = get_ex(variant, cpu).run(s, cpu=cpu, wall=cpu * 4)
    t = by_index(r.trace)
    out = []
    for mk in marks:
        out.append({k: (t.get(v) if v is not None else None) for k, v in mk.items()})
    return r, out


def unhex_diag(entry):
    out = []
    for f, line, msg in (entry or {}).get("diag", []) or []:
        out.append((None if f is None else bytes.fromhex(f).decode("latin-1"), line, bytes.fromhex(msg).decode("latin-1")))
    return out

"""C15 — comments are transparent; annotations stick to the next option."""
from hypothesis import strategies as st

import c06  # noqa: F401  (registers the 'c06' hand-built schema)
import gen_text
from execclient import Script, hx, by_index
from langbatch import run_subs, unhex_diag
from model_lang import Model, dump_to_plain
from model_lex import lex
from runner import Failure, Outcome, h64
from schema import (HAND, schemas, emit_schema, F_COMMENTS, F_IGNORE_UNKNOWN, F_NOCASE, F_LIST, F_DEPRECATED)

FORMS = ["#x", "#", "##", "# x #", "//x", "//", "/*x*/", "/**/", "/* * / */", "/* a\n   b */", "#  trailing  ", "// two words", "/***/",
         "/* x **/", "# a */ b", "   ", "\n\n", "\t", "#\t#",
         "# dos\r", "/* dos\r\n lines\r\n */", "#\x0cform feed\x0b", "/*\r\n x */", "// x \r", "\r\n"]


def needs_nl(form):
    return form.startswith(("#", "//"))


def strip_comments(tree):
    """dump without annotations and without the flag bits (values only)"""
    if tree is None:
        return None
    return {"name": tree["name"], "title": tree["title"],
            "opts": [{"n": o["n"], "v": [strip_comments(v) if isinstance(v, dict) else v for v in o["v"]]} for o in tree["opts"]]}


def lost_annotation(a, b, path=""):
    """an annotation present in tree a that is missing or different in tree b (same shape) -> description"""
    if a is None or b is None:
        return None
    for oa, ob in zip(a["opts"], b["opts"]):
        if oa["c"] is not None and oa["c"] != ob["c"]:
            return "annotation of %s/%s was %r, now %r" % (path, oa["n"], oa["c"], ob["c"])
        for x, y in zip(oa["v"], ob["v"]):
            if isinstance(x, dict) and isinstance(y, dict):
                r = lost_annotation(x, y, "%s/%s" % (path, oa["n"]))
                if r:
                    return r
    return None


def odd_names(tree):
    import re
    if tree is None:
        return False
    for o in tree["opts"]:
        if not re.fullmatch(r"[A-Za-z0-9_.-]+", o["n"] or ""):
            return True
        if any(isinstance(v, dict) and odd_names(v) for v in o["v"]):
            return True
    return False


def find_opt(tree, path, name, nocase):
    sec = tree
    for oname, idx in path:
        o = [x for x in sec["opts"] if x["n"] == oname]
        if not o or idx >= len(o[0]["v"]):
            return None
        sec = o[0]["v"][idx]
    for x in sec["opts"]:
        if x["n"] == name or (nocase and x["n"].lower() == name.lower()):
            return x
    return None


class C15:
    id = "C15"
    level = "exploration"
    variants = ("asan",)
    rule = ("texts T (accepted and rejected; random and hand-built schemas) x every token boundary (also inside lists, "
            "after = / +=, between name/title and {, inside call arguments, before end of input) x 4 of 19 comment/white-"
            "space forms (incl. empty and marker-only comments), CFGF_COMMENTS on and off. Metamorphic oracle: same return "
            "code and same values as T. Annotation half (COMMENTS on): a comment inserted immediately before the assignment "
            "of a scalar or non-empty brace list must be that option's annotation (expected text from the lexer model), be "
            "written by print and be read back by re-parsing the print. Non-trivial = insertion point not at an item "
            "boundary, or an empty/marker-only comment; distinct = distinct (T, point, form)")
    assumptions = ["inserted comments are blank-separated from neighbouring tokens; line comments end with a newline",
                   "which option inherits a comment placed before a section, call or bare-value list assignment is not judged"]

    def check_case(self, case, get_ex):
        schema = HAND[case["schema"]] if isinstance(case["schema"], str) else case["schema"]
        flags = case["flags"]
        text = gen_text.render(case["tokens"])
        m = Model(schema, flags)
        exp = m.parse(text)
        if exp.get("grey"):
            return Outcome(classes=["grey-base"], nontrivial=False, sample={"text": text[:200]})
        toks = lex(text)
        if toks[-1].kind == "ERR" or toks[-1].grey:
            return Outcome(classes=["lexical-base"], nontrivial=False, sample={"text": text[:200]})
        item_offs = {mk["off"]: mk for mk in m.marks if mk["file"] == "[buf]"}
        forms = case["forms"]
        subs = [{"flags": flags, "text": text}]
        meta = [None]
        only = case.get("only")
        for ti, tk in enumerate(toks):
            if tk.kind == "COMMENT":
                continue
            for fi, form in enumerate(forms):
                if only is not None and [ti, fi] != only:
                    continue
                if form.strip(" \t\r\n") == "" and ti > 0 and toks[ti - 1].kind != "COMMENT":
                    # pure white space also directly behind the previous token (no blank of ours in between)
                    at = toks[ti - 1].end
                    subs.append({"flags": flags, "text": text[:at] + form + text[at:]})
                else:
                    ins = " " + form + ("\n" if needs_nl(form) else " ")
                    subs.append({"flags": flags, "text": text[:tk.start] + ins + text[tk.start:]})
                meta.append((ti, fi))
        r, res = run_subs(get_ex, schema, subs, printit=False)
        base = res[0]["parse"]
        if base is None:
            return Outcome(failure=Failure("die/%s" % r.death(), r.stderr.decode("latin-1")[:1500]), classes=["died"])
        base_rc = base["rc"]
        base_full = dump_to_plain(res[0]["dump"]["tree"])
        base_tree = strip_comments(base_full)
        fails, keys, cc = [], [], {}
        crashed_already = [False]
        annot = []
        for sub, mt, rs in zip(subs[1:], meta[1:], res[1:]):
            ti, fi = mt
            tk, form = toks[ti], forms[fi]
            at_item = tk.start in item_offs
            body = lex(form + "\n")[0]
            markeronly = body.kind == "COMMENT" and body.val == ""
            for c in ["at-item" if at_item else "inside-item", "form/" + ("ws" if body.kind != "COMMENT" else form.split("\n")[0][:8])]:
                cc[c] = cc.get(c, 0) + 1
            if (not at_item) or markeronly:
                keys.append(h64(sub["text"]))
            e = rs["parse"]
            sig = msg = None
            if e is None and crashed_already[0]:
                continue            # only the first sub-case without a result is the victim of the crash
            if e is None:
                crashed_already[0] = True
                sig, msg = "die/%s" % r.death(), "child died: %s\n%s" % (r.death(), r.stderr.decode("latin-1")[:1200])
            elif e["rc"] != base_rc:
                where = "item-boundary" if at_item else "inside-item"
                sig, msg = "rc-changed/%s" % where, "comment %r inserted before %r: rc %d -> %d\n  text %r\n  diag %r" % (
                    form, tk, base_rc, e["rc"], sub["text"], unhex_diag(e))
            elif base_rc == 0:
                tree = dump_to_plain(rs["dump"]["tree"])
                if strip_comments(tree) != base_tree:
                    sig, msg = "values-changed", "comment %r inserted before %r changed the values\n  text %r" % (form, tk, sub["text"])
                elif (flags & F_COMMENTS) and exp["accept"] and not at_item and lost_annotation(base_full, tree):
                    sig, msg = "annotation-replaced-by-inner-comment", "comment %r inserted inside an item (before %r): %s\n  text %r" % (
                        form, tk, lost_annotation(base_full, tree), sub["text"])
                elif (flags & F_COMMENTS) and at_item and body.kind == "COMMENT":
                    mk = item_offs[tk.start]
                    # the item that follows: scalar assignment or non-empty brace list?
                    kind = self.item_kind(toks, ti)
                    if kind and (mk["flags"] & F_COMMENTS) and mk["kind"] == "STR":
                        o = find_opt(tree, mk["path"], mk["name"], bool(flags & F_NOCASE))
                        mo = self.model_opt(schema, flags, sub["text"], mk)
                        # judged only when the reference model, too, ends with this comment on that option (a later
                        # assignment, a replaced section instance or a dropped option legitimately change it)
                        if o is not None and mo is not None and mo.comment == body.val and not self.dropped(schema, mk, flags, kind):
                            cc["annotation-checked"] = cc.get("annotation-checked", 0) + 1
                            if o["c"] != body.val:
                                sig, msg = "annotation-wrong", "comment %r before %s: annotation of %r is %r, expected %r\n  text %r" % (
                                    form, kind, mk["name"], o["c"], body.val, sub["text"])
                            elif mo.vals and mo.vals[0] is not None:
                                annot.append((sub, mk, body.val, (ti, fi)))
            if sig:
                fails.append(Failure(sig, msg, dict(case, only=[ti, fi])))
        # print -> parse -> same annotation (a sample of the annotated sub-cases, each in its own child)
        for sub, mk, val, (ti, fi) in annot[:3]:
            f = self.roundtrip(get_ex, schema, flags, sub["text"], mk, val)
            if f:
                fails.append(Failure(f[0], f[1], dict(case, only=[ti, fi])))
            cc["annotation-roundtrip"] = cc.get("annotation-roundtrip", 0) + 1
        return Outcome(count=len(subs), keys=keys, class_counts=cc, nontrivial=bool(keys), failure=fails[0] if fails else None,
                       failures=fails[1:6], sample={"flags": flags, "text": text[:300], "forms": forms,
                                                     "example": subs[len(subs) // 2]["text"][:300]})

    @staticmethod
    def model_opt(schema, flags, text, mk):
        m2 = Model(schema, flags)
        r = m2.parse(text)
        if not r["accept"]:
            return None
        sec = m2.root
        for oname, idx in mk["path"]:
            o = [x for x in sec.opts if x.d["n"] == oname]
            if not o or idx >= len(o[0].vals):
                return None
            sec = o[0].vals[idx]
        return sec.find(mk["name"])

    @staticmethod
    def decl_of(schema, mk, flags):
        opts = schema
        for oname, _ in mk["path"]:
            nxt = [o for o in opts if o["n"] == oname]
            if not nxt:
                return None
            opts = nxt[0].get("sub") or []
        for o in opts:
            if o["n"] == mk["name"] or ((flags & F_NOCASE) and o["n"].lower() == mk["name"].lower()):
                return o
        return None

    def dropped(self, schema, mk, flags, kind="list"):
        """skip the annotation check: deprecated option (annotation may go with its values)"""
        d = self.decl_of(schema, mk, flags)
        if d is None:
            return not (mk["flags"] & 8192)          # free-form key: a scalar string
        if d["f"] & F_DEPRECATED:
            return True
        return False

    @staticmethod
    def item_kind(toks, ti):
        """'scalar' / 'list' when the item starting at token ti is NAME = STR or NAME =|+= { STR ..."""
        seq = [t for t in toks[ti:ti + 8] if t.kind != "COMMENT"]
        if len(seq) >= 3 and seq[0].kind == "STR" and seq[1].kind in ("=", "+"):
            if seq[2].kind == "STR":
                return "scalar-or-bare"     # decided by the schema below
            if seq[2].kind == "{" and len(seq) > 3 and seq[3].kind == "STR":
                return "list"
        return None

    def roundtrip(self, get_ex, schema, flags, text, mk, val):
        s = Script()
        emit_schema(s, 0, schema)
        s.add("init", 1, 0, flags)
        emit_schema(s, 1, schema)       # a second copy of the declaration: "simple" options keep their value in a variable per declaration
        s.add("init", 2, 1, flags)
        ip = s.add("parse_buf", 1, hx(text))
        id1 = s.add("dump", 1)
        irt = s.add("roundtrip", 1, 2)
        idd = s.add("dump", 2)
        s.add("free", 1)
        s.add("free", 2)
        r = get_ex("asan").run(s)
        t = by_index(r.trace)
        if not r.clean:
            return "die/%s" % r.death(), "roundtrip died: %s\n%s" % (r.death(), r.stderr.decode("latin-1")[:1200])
        printed = bytes.fromhex(t[irt]["text"]).decode("latin-1")
        if odd_names(dump_to_plain(t[id1]["tree"])):
            # a free-form key that is not identifier-like has no printable form (outside the domain, see C05): the printed
            # text may be rejected, or - a key such as '#nocomment' - silently read back as something else
            return None
        if t[irt]["rc"] != 0:
            if "*/" in val:
                return "annotation-print-unparsable/comment-terminator-in-annotation", "annotation %r printed as %r does not parse" % (val, printed)
            return "annotation-print-unparsable", "annotation %r: printed text %r rejected: %r" % (val, printed, unhex_diag(t[irt]))
        o = find_opt(dump_to_plain(t[idd]["tree"]), mk["path"], mk["name"], bool(flags & F_NOCASE))
        if o is None or o["c"] != val:
            return "annotation-lost-in-roundtrip", "annotation %r of %r: after print+parse it is %r\nprinted: %r" % (
                val, mk["name"], None if o is None else o["c"], printed)
        return None

    def strategy(self, tier):
        hand = ["basic", "sections", "keyval", "nodefault", "names", "tutorial", "c06"]
        import c06  # noqa: F401  (registers the c06 schema)

        @st.composite
        def case(draw):
            flags = draw(st.sampled_from([0, F_COMMENTS, F_COMMENTS, F_NOCASE | F_COMMENTS, F_IGNORE_UNKNOWN | F_COMMENTS]))
            if draw(st.integers(0, 2)) == 0:
                sc = draw(st.sampled_from(hand))
                opts = HAND[sc]
            else:
                opts = draw(schemas(nocase=bool(flags & F_NOCASE), allow_ptr=False, allow_simple=True))
                sc = opts
            toks = draw(gen_text.text_tokens(opts, flags, max_items=4, bad_p=0.03))
            if draw(st.integers(0, 4)) == 0:
                toks = draw(gen_text.mutate_tokens(toks, 1))
            if flags & F_COMMENTS:
                # annotate some items of the base text
                out = []
                start = True
                for t in toks:
                    if start and t[0] == "s" and draw(st.integers(0, 2)) == 0:
                        out.append(["c", draw(st.sampled_from([" base annotation", " note", "x"])), "hash"])
                    out.append(t)
                    start = t[0] == "w" and "\n" in t[1]
                toks = out
            forms = draw(st.lists(st.sampled_from(FORMS), min_size=4, max_size=4, unique=True))
            return {"schema": sc, "flags": flags, "tokens": toks, "forms": forms}
        return case()

    def run(self, r):
        r.run_hypothesis(8000 if r.tier == "quick" else 200000)


PROP = C15()

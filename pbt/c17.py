"""C17 — file names resolve deterministically via search path and tilde."""
import itertools
import os
import pwd
import shutil

from hypothesis import strategies as st

from c02 import fixture_dir
from execclient import Script, hx, by_index
from runner import Failure, Outcome, h64
from schema import emit_schema, o_int, o_func

from schema import o_sec, F_MULTI  # noqa: E402
SCHEMA = [o_int("marker", 0), o_func("include", "include"),
          o_sec("plain", [o_int("marker", 0), o_func("include", "include")]),
          o_sec("multi", [o_int("marker", 0), o_func("include", "include")], F_MULTI)]
DIRS = ["d1", "d2", "d3", "d4"]
POOL = DIRS + ["missingdir", "~nosuchuser9/td"]          # '~nosuchuser9/td' stays literal: a directory of that name below cwd
TARGET = "target.conf"


def home_of(user=None):
    try:
        return (pwd.getpwuid(os.geteuid()) if user is None else pwd.getpwnam(user)).pw_dir
    except KeyError:
        return None


def tilde_model(name):
    if not name.startswith("~"):
        return name
    rest = name[1:]
    user, slash, tail = rest.partition("/")
    h = home_of(user if user else None)
    if h is None:
        return name
    return h + (("/" + tail) if slash else "")


class C17:
    id = "C17"
    level = "exploration"
    variants = ("asan",)
    rule = ("all 81 placements of {regular file, directory, nothing} of one name in four directories x search-path sequences "
            "(all sequences of length 0-2 and sampled ones of length 3-4 over the four directories, a missing directory, "
            "duplicates and a tilde-prefixed literal directory) x names (relative, sub/relative, absolute existing / missing "
            "/ directory - each with a decoy regular file at <search dir>/<that absolute name> -, empty, ~, ~/x, ~root, ~root/x, ~bin/ls, ~user/a/b, ~nosuchuser/x, ~ + 300 bytes, ./name, ../dir/name, dot files, symbolic links to a file / to nothing / to a directory); every file carries a marker "
            "value; each case under two heap fill patterns. Oracle: file model (first directory in the order added that "
            "holds a regular file; absolute names bypass the list; tilde per passwd database, unknown user unchanged); "
            "cfg_parse(name) and include(name) load the same marker; both fills give identical answers. Non-trivial = >= 2 "
            "directories of which >= 2 contain the name, or any ~user form; distinct = distinct (placement, path, name)")
    assumptions = ["home directories come from Python's pwd module (same passwd database)",
                   "uninitialised reads are approached through two heap fill bytes (0x00 / 0xA5) and ASan's libc interceptors"]

    def check_case(self, case, get_ex):
        fx = fixture_dir()
        base = os.path.join(fx, "c17")
        shutil.rmtree(base, ignore_errors=True)
        results = []
        for fill in (0, 0xA5):
            s = Script()
            emit_schema(s, 0, SCHEMA)
            s.add("fill", fill)
            s.add("env", hx("HOME"), hx("/nonexistent/decoy-home"))     # ~ and ~/x come from the passwd database, not from $HOME
            s.add("mkdir", hx(base))
            marks = []
            for n, sub in enumerate(case["subs"]):
                root = os.path.join(base, "%d_%d" % (fill, n))
                s.add("mkdir", hx(root))
                s.add("cwd", hx(root))
                s.add("mkdir", hx(os.path.join(root, "~nosuchuser9")))
                s.add("mkdir", hx(os.path.join(root, "~nosuchuser9", "td")))
                place = dict(zip(DIRS, sub["placement"]))
                place["~nosuchuser9/td"] = sub.get("tilde_dir", "n")
                for d, what in place.items():
                    dp = os.path.join(root, d)
                    if d in DIRS:
                        s.add("mkdir", hx(dp))
                        s.add("mkdir", hx(os.path.join(dp, "sub")))
                    if what == "f":
                        s.add("mkfile", hx(os.path.join(dp, TARGET)), hx("marker = %d\n" % (10 + POOL.index(d))))
                        if d in DIRS:
                            s.add("mkfile", hx(os.path.join(dp, "sub", TARGET)), hx("marker = %d\n" % (20 + POOL.index(d))))
                    elif what == "d":
                        s.add("mkdir", hx(os.path.join(dp, TARGET)))
                s.add("mkfile", hx(os.path.join(root, "abs_exists.conf")), hx("marker = 99\n"))
                s.add("mkfifo", hx(os.path.join(root, "d1", "fifo.conf")))            # neither a regular file nor a directory
                s.add("mkfile", hx(os.path.join(root, "d3", "fifo.conf")), hx("marker = 77\n"))
                s.add("mkdir", hx(os.path.join(root, "abs_dir")))
                # symbolic links: to a regular file (counts as one), to nothing, to a directory
                s.add("symlink", hx("../abs_exists.conf"), hx(os.path.join(root, "d2", "link.conf")))
                s.add("mkfile", hx(os.path.join(root, "d4", "link.conf")), hx("marker = 41\n"))
                s.add("symlink", hx("no-such-target"), hx(os.path.join(root, "d1", "dangling.conf")))
                s.add("mkfile", hx(os.path.join(root, "d3", "dangling.conf")), hx("marker = 42\n"))
                s.add("symlink", hx("sub"), hx(os.path.join(root, "d1", "linkdir.conf")))
                s.add("mkfile", hx(os.path.join(root, "d4", "linkdir.conf")), hx("marker = 43\n"))
                # a dot file in one search directory only, with a decoy of the same name in the working directory
                s.add("mkfile", hx(os.path.join(root, "d2", ".dot.conf")), hx("marker = 30\n"))
                s.add("mkfile", hx(os.path.join(root, ".dot.conf")), hx("marker = 31\n"))
                s.add("mkfile", hx(os.path.join(root, TARGET)), hx("marker = 32\n"))      # decoy: the working directory is not searched
                # decoys: the absolute missing / directory names replicated below search directories (an absolute name bypasses the list)
                for d in ("d1", "d3"):
                    for nm_ in ("abs_missing.conf", "abs_dir"):
                        cur = os.path.join(root, d)
                        comps = [c for c in os.path.join(root, nm_).split("/") if c]
                        for c in comps[:-1]:
                            cur = os.path.join(cur, c)
                            s.add("mkdir", hx(cur))
                        s.add("mkfile", hx(os.path.join(cur, comps[-1])), hx("marker = 55\n"))
                s.add("newcase")
                s.add("init", 1, 0, 0)
                for d in sub["path"]:
                    s.add("searchpath", 1, hx(d))
                q = []
                for name in sub["names"]:
                    if ("fifo" in name or name == "/dev/null") and not sub["path"]:
                        continue        # without a search path the name is opened as it is: a FIFO would block (no property about that)
                    nm = name.replace("@ROOT@", root).replace("@BASE@", os.path.basename(root))
                    e = {"name": nm}
                    e["find"] = s.add("findfile", 1, hx(nm))
                    e["tilde"] = s.add("tilde", hx(nm))
                    s.add("init", 2, 0, 0)
                    for d in sub["path"]:
                        s.add("searchpath", 2, hx(d))
                    e["parse"] = s.add("parse_file", 2, hx(nm))
                    e["pm"] = s.add("getint", 2, hx("marker"), 0)
                    s.add("free", 2)
                    s.add("init", 3, 0, 0)
                    for d in sub["path"]:
                        s.add("searchpath", 3, hx(d))
                    e["inc"] = s.add("parse_buf", 3, hx("include(\"%s\")\n" % nm.replace("\\", "\\\\").replace("\"", "\\\"")))
                    e["im"] = s.add("getint", 3, hx("marker"), 0)
                    s.add("free", 3)
                    s.add("init", 4, 0, 0)
                    for d in sub["path"]:
                        s.add("searchpath", 4, hx(d))
                    qn = nm.replace("\\", "\\\\").replace("\"", "\\\"")
                    e["incs"] = s.add("parse_buf", 4, hx("plain { include(\"%s\") }\nmulti { include(\"%s\") }\n" % (qn, qn)))
                    e["ims1"] = s.add("getint", 4, hx("plain|marker"), 0)
                    e["ims2"] = s.add("getint", 4, hx("multi|marker"), 0)
                    s.add("free", 4)
                    q.append(e)
                s.add("free", 1)
                marks.append((root, sub, q))
            s.add("newcase")
            r = get_ex("asan", 20).run(s)
            results.append((r, by_index(r.trace), marks))
        fails, keys, cc = [], [], {}
        (r0, t0, m0), (r1, t1, m1) = results
        for r in (r0, r1):
            if not r.clean:
                d = r.death()
                fr = [f for f in r.frames() if f.startswith("cfg_")]
                return Outcome(failure=Failure("die/%s/%s" % (d, fr[0] if fr else "?"), "%s\n%s" % (d, r.stderr.decode("latin-1")[:1500])),
                               classes=["died"], count=1)
        total = 0
        for (root, sub, q0), (root1, _, q1) in zip(m0, m1):
            place = dict(zip(DIRS, sub["placement"]))
            place["~nosuchuser9/td"] = sub.get("tilde_dir", "n")
            place["missingdir"] = "n"
            holders = [d for d in set(sub["path"]) if place.get(d) in ("f", "d")]
            for e0, e1 in zip(q0, q1):
                total += 1
                name = e0["name"]
                rel = name.replace(root, "@ROOT@").replace("/" + os.path.basename(root) + "/", "/@BASE@/")
                # model
                exp_find = None
                if sub["path"]:
                    if name.startswith("/"):
                        exp_find = name if os.path.isfile(name) else None
                    elif name in (TARGET, "sub/" + TARGET):
                        for d in sub["path"]:
                            if place.get(d) == "f" and (name == TARGET or d in DIRS):
                                exp_find = d + "/" + name
                                break
                    else:
                        exp_find = None
                        for d in sub["path"]:
                            if os.path.isfile(os.path.join(root, d, name)) and name:
                                exp_find = d + "/" + name
                                break
                got_find = t0[e0["find"]]["v"]
                got_find = None if got_find is None else bytes.fromhex(got_find).decode("latin-1")
                nt = (len(holders) >= 2) or (name.startswith("~") and len(name) > 1 and name[1] != "/")
                cls = "tilde" if name.startswith("~") else "absolute" if name.startswith("/") else "relative"
                cc[cls] = cc.get(cls, 0) + 1
                if nt:
                    keys.append(h64([sub["placement"], sub["path"], rel, sub.get("tilde_dir")]))
                sig = msg = None
                ctx = "placement %r, search path %r, name %r" % (sub["placement"], sub["path"], rel)
                if got_find != exp_find:
                    kind = "directory-matched" if got_find and os.path.isdir(os.path.join(root, got_find) if not got_find.startswith("/") else got_find) else \
                        "wrong-order" if got_find and exp_find else "spurious" if got_find else "missed"
                    sig, msg = "searchpath/%s" % kind, "%s: cfg_searchpath -> %r, model -> %r" % (ctx, got_find, exp_find)
                else:
                    gt = t0[e0["tilde"]]["v"]
                    gt = None if gt is None else bytes.fromhex(gt).decode("latin-1")
                    if gt != tilde_model(name):
                        sig, msg = "tilde/%s" % ("user" if name[1:2] not in ("", "/") else "self"), "cfg_tilde_expand(%r) -> %r, passwd says %r" % (rel, gt, tilde_model(name))
                if sig is None:
                    # which marker cfg_parse loads
                    if sub["path"]:
                        target = os.path.join(root, exp_find) if exp_find and not exp_find.startswith("/") else exp_find
                    else:
                        target = tilde_model(name)
                        target = target if target.startswith("/") else os.path.join(root, target)
                        target = target if os.path.isfile(target) else None
                    exp_marker = None
                    if target:
                        try:
                            exp_marker = int(open(target).read().split("=")[1])
                        except (OSError, IndexError, ValueError):
                            exp_marker = None
                    prc, pm = t0[e0["parse"]]["rc"], t0[e0["pm"]]["v"]
                    irc, im = t0[e0["inc"]]["rc"], t0[e0["im"]]["v"]
                    if exp_marker is not None:
                        if prc != 0 or pm != exp_marker:
                            sig, msg = "parse-loads-wrong-file", "%s: cfg_parse rc %d marker %r, expected marker %d" % (ctx, prc, pm, exp_marker)
                        elif irc != 0 or im != exp_marker:
                            sig, msg = "include-differs-from-parse", "%s: include rc %d marker %r, cfg_parse loaded %d" % (ctx, irc, im, exp_marker)
                        elif t0[e0["incs"]]["rc"] != 0 or t0[e0["ims1"]]["v"] != exp_marker or t0[e0["ims2"]]["v"] != exp_marker:
                            sig, msg = "include-in-section-differs", "%s: include inside a single / multi section: rc %d markers %r / %r, top level loaded %d" % (
                                ctx, t0[e0["incs"]]["rc"], t0[e0["ims1"]]["v"], t0[e0["ims2"]]["v"], exp_marker)
                    else:
                        if prc == 0 and name:
                            sig, msg = "parse-found-something", "%s: cfg_parse succeeded (marker %r) although nothing should resolve" % (ctx, pm)
                        elif irc == 0:
                            sig, msg = "include-found-something", "%s: include succeeded (marker %r) although nothing should resolve" % (ctx, im)
                if sig is None:
                    for k in ("find", "tilde", "parse", "pm", "inc", "im", "incs", "ims1", "ims2"):
                        a = {x: y for x, y in t0[e0[k]].items() if x not in ("i", "diag", "filename")}
                        b = {x: y for x, y in t1[e1[k]].items() if x not in ("i", "diag", "filename")}
                        if "v" in a and isinstance(a["v"], str):
                            a["v"] = bytes.fromhex(a["v"]).decode("latin-1").replace(root, "").replace("/" + os.path.basename(root) + "/", "/@BASE@/")
                            b["v"] = bytes.fromhex(b["v"]).decode("latin-1").replace(root1, "").replace("/" + os.path.basename(root1) + "/", "/@BASE@/") \
                                if isinstance(b["v"], str) else b["v"]
                        if a != b:
                            sig, msg = "depends-on-heap-fill/%s" % k, "%s: %s differs between heap fill 0x00 and 0xA5: %r vs %r" % (ctx, k, a, b)
                            break
                if sig:
                    fails.append(Failure(sig, msg, {"subs": [dict(sub, names=[rel])]}))
        seen = set()
        uniq = [f for f in fails if not (f.sig in seen or seen.add(f.sig))]
        mid = case["subs"][len(case["subs"]) // 2]
        return Outcome(count=total, keys=keys, class_counts=cc, nontrivial=bool(keys), failure=uniq[0] if uniq else None, failures=uniq[1:6],
                       sample={"placement": mid["placement"], "path": mid["path"], "names": mid["names"][:6]})

    NAMES = [TARGET, "sub/" + TARGET, "@ROOT@/abs_exists.conf", "@ROOT@/abs_missing.conf", "@ROOT@/abs_dir", "@ROOT@/d2/" + TARGET, "",
             "~", "~/x", "~root", "~root/x", "~bin/ls", "~nosuchuser9/x", "~nosuchuser9/td/" + TARGET, "~" + "a" * 300, "~r", "~roo", "~rootx/y",
             "nosuch.conf", ".", "d1", "d1/" + TARGET, "/dev/null", "fifo.conf", "@ROOT@/d1/fifo.conf",
             "link.conf", "dangling.conf", "linkdir.conf", "@ROOT@/d2/link.conf", "@ROOT@/d1/dangling.conf",
             "./" + TARGET, ".dot.conf", "../@BASE@/d2/" + TARGET, "sub/../" + TARGET, "~root/x/y", "~bin/a/b/c.conf", "~root//x", "~/x/y/z",
             # expansions longer than any fixed buffer (PATH_MAX is 4096): the result is still home + complete tail
             "~/" + "p/" * 2100 + "x.conf", "~root/" + "q" * 5000, "~/" + "z" * 4085, "~/" + "z" * 4090 + "/" + "y" * 20, "~bin/" + "b/" * 9000]

    def run(self, r):
        placements = ["".join(p) for p in itertools.product("fdn", repeat=4)]
        paths = [[]]
        for n in (1, 2):
            paths += [list(p) for p in itertools.product(POOL, repeat=n)]
        longer = [["d1", "d2", "d3"], ["d3", "d2", "d1"], ["d4", "d4", "d1"], ["missingdir", "d2", "d1", "d3"], ["d2", "~nosuchuser9/td", "d1"],
                  ["d1", "d2", "d3", "d4"], ["d4", "d3", "d2", "d1"], ["~nosuchuser9/td", "d4"], ["d2", "d2", "d2", "d3"], ["d3", "missingdir", "missingdir", "d2"]]
        paths += longer
        subs = []
        if r.tier == "quick":
            # every placement with every short path for the two relative names; the full name list on a sample
            for pl in placements:
                for pth in paths:
                    subs.append({"placement": pl, "path": pth, "names": [TARGET, "sub/" + TARGET], "tilde_dir": "f" if pl[0] == "n" else "n"})
            for pl in placements[::2]:
                for pth in paths[:8] + longer:
                    subs.append({"placement": pl, "path": pth, "names": self.NAMES, "tilde_dir": "f"})
        else:
            for pl in placements:
                for pth in paths:
                    subs.append({"placement": pl, "path": pth, "names": self.NAMES, "tilde_dir": "f" if pl[0] != "f" else "d"})
        B = 12
        r.run_cases([{"subs": subs[i:i + B]} for i in range(0, len(subs), B)], chunksize=2)
        r.exhaustive = True

    def strategy(self, tier):
        return None


PROP = C17()

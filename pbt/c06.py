"""C06 — rejected input is always reported, with the right file and line."""
from hypothesis import strategies as st

from execclient import hx
import gen_text
from langbatch import run_subs, unhex_diag
from model_lang import Model
from runner import Failure, Outcome, h64
from schema import (F_LIST, HAND, schemas, walk, o_func, o_int, o_str, o_sec, o_list, F_COMMENTS, F_IGNORE_UNKNOWN, F_NOCASE, F_DEPRECATED,
                    F_KEYSTRVAL, F_MULTI, F_TITLE, F_NO_TITLE_DUPES, F_NODEFAULT)

HAND["c06"] = [
    o_int("i", 5), o_str("s", "d"), o_list("int", "il", "{1, 2}"), o_list("str", "sl", None),
    o_sec("single", [o_int("x", 1), o_str("y", "y"), o_sec("inner", [o_int("z", 1)])]),
    o_sec("tm", [o_int("x", 1), o_list("str", "zl", None)], F_MULTI | F_TITLE),
    o_sec("tu", [o_int("x", 1)], F_MULTI | F_TITLE | F_NO_TITLE_DUPES), o_sec("kv", [], F_KEYSTRVAL),
    o_sec("nd", [o_int("x", 1)], F_NODEFAULT), o_func("fn"), o_func("include", "include"),
    # pointer options declared without a value-parsing callback: every assignment to them is refused (and must be reported)
    {"k": "ptr", "n": "pnocb", "f": 0, "d": None, "cb": 0}, {"k": "ptr", "n": "plnocb", "f": F_LIST, "d": None, "cb": 0},
]


def has_deprecated(schema):
    return any(o["f"] & F_DEPRECATED for _, o in walk(schema))


def preceding(text, end):
    """constructs in the text before offset end (for classification)"""
    pre = text[:end]
    c = []
    if "#" in pre or "//" in pre:
        c.append("line-comment")
    if "/*" in pre:
        c.append("block-comment")
    if "\\\n" in pre:
        c.append("continuation")
    if "include" in pre:
        c.append("include")
    if "{" in pre and pre.count("{") > pre.count("}"):
        c.append("in-braces")
    return c


class C06:
    id = "C06"
    level = "exploration"
    variants = ("asan",)
    rule = ("valid texts (hand-built and random schemas incl. free-form sections and default-created single sections) "
            "rendered over several lines with comments of all styles, multi-line strings, backslash-newline continuations, "
            "nested sections and 0-2 levels of top-level include files; for each base text one sub-case per token position "
            "with an injected error (wrong token kind / deletion / cut / bad escape / unterminated string / bad value / a refusing callback / a name "
            "written with the path characters | and =), in the "
            "main text or inside an included file, via buffer or file. Oracle: language model gives accept/reject and the "
            "offending token; reject => PARSE_ERROR, >= 1 diagnostic, last diagnostic names the token's file and the line on "
            "which it ends, none beyond; accept (no deprecated options) => zero diagnostics. Non-trivial = offending token on "
            "line >= 2 with a comment, multi-line string, continuation or include before it; distinct = distinct texts")
    assumptions = ["message texts are never compared",
                   "file name for a buffer is '[buf]', for cfg_parse the path handed in, for includes the name as resolved"]

    def judge(self, schema, flags, sub, res, main_name):
        text = gen_text.render(sub["main"])
        files = {n: gen_text.render(t) for n, t in (sub.get("files") or {}).items()}
        m = Model(schema, flags, files=files)
        m.fail_at = sub.get("cbfail", 0)       # the k-th callback invocation refuses (and reports through the context it was given)
        exp = m.parse(text, filename=main_name)
        e = res["parse"]
        info = {"nontrivial": False, "classes": []}
        if e is None:
            return "no-result", "no result", info
        rc = e["rc"]
        diags = unhex_diag(e)
        if exp.get("grey"):
            # the language model does not decide this text (e.g. a name written with the path characters | and =), but
            # the two implications of the property need no model: rejected => reported, accepted => silent
            info["classes"].append("grey-text")
            if rc != 0 and not diags:
                return "no-diagnostic/grey-text", "text %r: parse returned %d without any diagnostic" % (text, rc), info
            if rc == 0 and diags and not has_deprecated(schema):
                return "spurious-diagnostic/grey-text", "accepted text %r delivered diagnostics %r" % (text, diags), info
            return None, None, info
        if exp["accept"] != (rc == 0):
            return ("verdict/%s" % ("accepted-invalid" if rc == 0 else "rejected-valid"),
                    "text %r files %r: model %s (%s) but parse returned %d, diag %r" %
                    (text, files, "accepts" if exp["accept"] else "rejects", exp.get("why"), rc, diags), info)
        if exp["accept"]:
            info["classes"].append("accepted")
            if not has_deprecated(schema) and diags:
                kind = "keystrval" if any("no such option" in d[2] for d in diags) else "other"
                return "spurious-diagnostic/%s" % kind, "accepted text %r delivered diagnostics %r" % (text, diags), info
            return None, None, info
        tok = exp["tok"]
        efile, eline = exp["file"], exp["line"]
        src = text if efile == main_name else files.get(efile, "")
        pre = preceding(src, tok.end) + (["included-file"] if efile != main_name else [])
        info["classes"] += ["rejected"] + ["pre/" + p for p in pre]
        info["nontrivial"] = eline >= 2 and bool(pre)
        if not diags:
            return "no-diagnostic/%s" % (exp["why"].split(" ")[0]), "rejected text %r (%s) delivered no diagnostic" % (text, exp["why"]), info
        lf, ll, lm = diags[-1]
        if lf != efile:
            return ("wrong-file/%s" % ("null" if lf is None else "other"),
                    "text %r files %r: offending token %r in %s line %d; last diagnostic names file %r line %d (%s)" %
                    (text, files, tok, efile, eline, lf, ll, lm), info)
        if ll != eline:
            return ("wrong-line/%s" % ("+".join(pre) or "plain"),
                    "text %r files %r: offending token %r ends on line %d of %s (%s); last diagnostic says line %d (%s); all: %r" %
                    (text, files, tok, eline, efile, exp["why"], ll, lm, diags), info)
        for f, l, msg in diags:
            if f == efile and l > eline:
                return "diagnostic-beyond-error/%s" % ("+".join(pre) or "plain"), "text %r: diagnostic %r beyond the offending line %d" % (text, (f, l, msg), eline), info
        return None, None, info

    def check_case(self, case, get_ex):
        schema = HAND[case["schema"]] if isinstance(case["schema"], str) else case["schema"]
        flags = case["flags"]
        subs = case["subs"]
        via = case.get("via", "buf")

        import os
        from c02 import fixture_dir
        # the context may have been used before, for an input with another name (an empty one: the state is unchanged)
        pre = []
        if case.get("reuse"):
            first = os.path.join(fixture_dir(), "first_input.conf")
            pre = [["mkfile", hx(first), hx("# first input\n\n")], ["parse_file", 1, hx(first)]] if via == "buf" else \
                  [["parse_buf", 1, hx("# first input\n\n\n")]]

        def run(sublist):
            ex = [{"flags": flags, "text": gen_text.render(s["main"]), "via": via, "pre": pre, "cbfail": s.get("cbfail"),
                   "files": {n: gen_text.render(t) for n, t in (s.get("files") or {}).items()}} for s in sublist]
            return run_subs(get_ex, schema, ex)

        main_name = "[buf]" if via == "buf" else os.path.join(fixture_dir(), "main_input.conf")
        r, results = run(subs)
        fails, keys, cc = [], [], {}
        crashed = False
        for sub, res in zip(subs, results):
            sig, msg, info = self.judge(schema, flags, sub, res, main_name)
            for c in info["classes"]:
                cc[c] = cc.get(c, 0) + 1
            if info["nontrivial"]:
                keys.append(h64(gen_text.render(sub["main"]) + repr(sub.get("files"))))
            if sig is None:
                continue
            if sig == "no-result" and len(subs) > 1:
                if crashed:
                    continue
                crashed = True
            if len(subs) > 1:
                r1, res1 = run([sub])
                sig, msg, _ = self.judge(schema, flags, sub, res1[0], main_name)
                if sig == "no-result":
                    sig, msg = "die/%s" % r1.death(), r1.stderr.decode("latin-1")[:1500]
            elif sig == "no-result":
                sig, msg = "die/%s" % r.death(), r.stderr.decode("latin-1")[:1500]
            if sig:
                fails.append(Failure(sig, msg, dict(case, subs=[sub])))
        mid = subs[len(subs) // 2]
        return Outcome(count=len(subs), keys=keys, class_counts=cc, nontrivial=bool(keys), failure=fails[0] if fails else None,
                       failures=fails[1:6], sample={"flags": flags, "via": via, "text": gen_text.render(mid["main"])[:400],
                                                     "files": {n: gen_text.render(t)[:100] for n, t in (mid.get("files") or {}).items()}})

    def strategy(self, tier):
        hand = ["c06", "c06", "sections", "keyval", "basic", "nodefault", "tutorial"]

        @st.composite
        def case(draw):
            flags = draw(st.sampled_from([0, 0, F_COMMENTS, F_NOCASE, F_COMMENTS | F_NOCASE]))
            if draw(st.integers(0, 2)) > 0:
                sc = draw(st.sampled_from(hand))
                opts = HAND[sc]
            else:
                opts = draw(schemas(nocase=bool(flags & F_NOCASE), allow_deprecated=False, allow_ptr=False))
                if draw(st.integers(0, 2)) == 0:
                    from c14 import decorate
                    opts = decorate(opts, draw)       # value-parsing and validation callbacks on options and sections
                if not any(o["n"].lower() == "include" for o in opts):
                    opts = opts + [o_func("include", "include")]
                sc = opts
            items = draw(gen_text.item_list(opts, flags, max_items=7, allow_unknown=False, bad_p=0.0))
            has_inc = any(o["n"] == "include" and o["k"] == "func" and o.get("d") == "include" for o in opts)
            files = {}
            main = []
            for k, it in enumerate(items):
                it = [t for t in it]
                # do not touch generated include() calls of fixture names: replace them
                if any(t[0] == "s" and t[1].startswith("inc_") for t in it):
                    continue
                # multi-line forms for some strings
                for t in it:
                    if t[0] == "s" and draw(st.integers(0, 5)) == 0:
                        t[2] = draw(st.sampled_from(["dqc", "sqc", "dq", "sq"]))
                if has_inc and draw(st.integers(0, 5)) == 0:
                    name = "c06_%d.conf" % len(files)
                    body = it + [["w", draw(st.sampled_from(["\n", "", "\n\n"]))]]
                    if draw(st.integers(0, 3)) == 0 and len(files) < 2:
                        inner = "c06_%d.conf" % (len(files) + 1)
                        files[inner] = [["c", " inner", "hash"], ["s", "i", "bare"], ["p", "="], ["s", "7", "bare"], ["w", "\n"]] \
                            if any(o["n"] == "i" and o["k"] == "int" and not o["f"] for o in opts) else [["c", " nothing", "hash"]]
                        body = [["s", "include", "bare"], ["p", "("], ["s", inner, "dq"], ["p", ")"], ["w", "\n"]] + body
                        files[name] = body
                    else:
                        files[name] = body
                    main += [["s", "include", "bare"], ["p", "("], ["s", name, draw(st.sampled_from(["dq", "bare", "sq"]))], ["p", ")"]]
                else:
                    main += it
                main.append(["w", draw(st.sampled_from(["\n", "\n", "\n\n", " ", "\n \n"]))])
                if draw(st.integers(0, 2)) == 0:
                    body = draw(st.sampled_from([" c", "", " two words", "#", " a\n b\n", "*", "\n * doc\n * style\n ", "* \n", " a*b\nc ", "**\n**", " x /* y\n"]))
                    style = draw(st.sampled_from(["hash", "slash", "block", "block"]))
                    if style != "block":
                        body = body.replace("\n", " ")
                    main.append(["c", body, style])
                    main.append(["w", draw(st.sampled_from(["\n", " ", "\n\n"]))])
            # comments between the tokens of items
            if draw(st.booleans()):
                for _ in range(draw(st.integers(1, 3))):
                    p = draw(st.integers(0, len(main)))
                    main.insert(p, ["c", draw(st.sampled_from([" x", "", " y\n", " *z\n*\n"])), "block"])
            # DOS line ends between the tokens (a carriage return there is ignored and is not a line end), stray CRs
            dos = draw(st.integers(0, 3)) == 0
            if dos:
                for body in [main] + list(files.values()):
                    for t in body:
                        if t[0] == "w":
                            t[1] = t[1].replace("\n", "\r\n")
                for _ in range(draw(st.integers(0, 2))):
                    main.insert(draw(st.integers(0, len(main))), ["w", draw(st.sampled_from(["\r", "\r\r\n", " \r "]))])
            subs = [{"main": main, "files": files}]
            # a callback that refuses: the diagnostic it issues carries the position the parser has reached
            m0 = Model(opts, flags, files={n: gen_text.render(t) for n, t in files.items()})
            if m0.parse(gen_text.render(main)).get("accept") and m0.cbseq:
                for k in sorted(set([1, m0.cbseq] + [draw(st.integers(1, m0.cbseq)) for _ in range(3)])):
                    subs.append({"main": main, "files": files, "cbfail": k})
            idx = [i for i, t in enumerate(main) if t[0] in ("s", "p")]
            for i in idx:
                kind = draw(st.sampled_from(["wrong", "del", "cut", "badesc", "unterm", "badval", "wrong", "cut", "pathname", "envnl"]))
                t = main[i]
                if kind == "pathname":
                    # a name (or value) written with the characters of the path syntax
                    x = t[1] if t[0] == "s" and t[1] else "zz"
                    y = draw(st.sampled_from([o["n"] for o in opts] + ["zz"]))
                    form = draw(st.sampled_from(["%s|", "%s|%s", "|%s", "%s||%s", "%s||", "%s=1|%s", "%s=|%s", "%s='t'|%s", "%s|%s|", "%s=", "=%s"]))
                    name = form % ((x, y)[:form.count("%s")])
                    mut = main[:i] + [["s", name, "dq" if ("=" in name or "'" in name) else "bare"]] + main[i + 1:]
                elif kind == "envnl":
                    # a value written as a substitution whose default spans lines (every newline counts)
                    v = draw(st.sampled_from(["${C06_UNSET:-a\nb}", "\"x${C06_UNSET:-\n\n}y\"", "${C06_UNSET:-\n}"]))
                    mut = main[:i] + [["raw", v if t[0] == "s" else gen_text.render([t]) + " " + v]] + main[i + 1:]
                elif kind == "wrong":
                    rep = ["p", "}"] if t[0] == "s" else ["s", "zz", "bare"]
                    mut = main[:i] + [rep] + main[i + 1:]
                elif kind == "del":
                    mut = main[:i] + main[i + 1:]
                elif kind == "cut":
                    mut = main[:i + 1] + ([["w", draw(st.sampled_from(["", "\n", "\n\n# end\n"]))]])
                elif kind == "badesc":
                    mut = main[:i] + [["raw", "\"x\\400\""]] + main[i + 1:]
                elif kind == "unterm":
                    mut = main[:i] + [["raw", "'abc"]] + main[i + 1:]
                else:
                    mut = main[:i] + [["s", "1x", "dq"]] + main[i + 1:]
                subs.append({"main": mut, "files": files})
            # an include of a file that does not exist: reported at the include statement of the includer
            if has_inc:
                miss = [["s", "include", "bare"], ["p", "("], ["s", "c06_missing.conf", "dq"], ["p", ")"], ["w", "\n"]]
                subs.append({"main": main + miss, "files": files})
                subs.append({"main": miss + main, "files": files})
                for name in list(files)[:1]:
                    mf = dict(files)
                    mf[name] = files[name] + miss
                    subs.append({"main": main, "files": mf})
            # errors inside included files
            for name in list(files)[:2]:
                body = files[name]
                fi = [i for i, t in enumerate(body) if t[0] in ("s", "p")]
                if fi:
                    i = draw(st.sampled_from(fi))
                    mutf = dict(files)
                    mutf[name] = body[:i] + [["p", ")"] if body[i][0] == "s" else ["s", "zz", "bare"]] + body[i + 1:]
                    subs.append({"main": main, "files": mutf})
                    mutf2 = dict(files)
                    mutf2[name] = body[:i + 1]
                    subs.append({"main": main, "files": mutf2})
            return {"schema": sc, "flags": flags, "via": draw(st.sampled_from(["buf", "buf", "file"])), "subs": subs,
                    "reuse": draw(st.integers(0, 3)) == 0}
        return case()

    def run(self, r):
        r.run_hypothesis(3200 if r.tier == "quick" else 60000)


PROP = C06()

"""C05 — printed configuration parses back to the same configuration."""
from hypothesis import strategies as st

import gen_text
from execclient import Script, hx, by_index
from langbatch import unhex_diag
from model_lang import dump_to_plain
from runner import Failure, Outcome, h64
from schema import (HAND, schemas, emit_schema, walk, F_SIMPLE, F_COMMENTS, F_NOCASE, F_LIST, F_MULTI, F_TITLE, F_KEYSTRVAL, F_NODEFAULT,
                    o_int, o_float, o_bool, o_str, o_list, o_sec)

HAND["c05"] = [
    o_int("i", 5), o_float("f", "1.5"), o_bool("b", 0), o_str("s", "dflt"), o_str("sn", None), o_str("nd", None, F_NODEFAULT),
    o_list("int", "il", "{10, 20}"), o_list("float", "fl", None), o_list("bool", "bl", "{true}"), o_list("str", "sl", "{\"a\", b}"),
    o_sec("single", [o_str("y", "why"), o_list("str", "zl", None)]),
    o_sec("tm", [o_int("x", 7), o_str("y", "why"), o_list("str", "zl", "{p}")], F_MULTI | F_TITLE),
    o_sec("multi", [o_str("y", "w"), o_sec("deep", [o_str("z", "zz")], F_MULTI | F_TITLE)], F_MULTI),
    o_sec("kv", [], F_KEYSTRVAL),
]
SPECIAL = ["\"", "\\", "$", "{", "}", "'", "#", "/", "*", ",", "=", "\n", "\t", "${", "*/", "//", "\\n", "${HOME}", "/*", " ", "\r",
           "\x01", "\x7f", "\x80", "\xff", "(", ")", "+=", "|", ";", "\r\n", "\n\r", "\\\n", " \n", "\t\n"]
strings = st.lists(st.sampled_from(SPECIAL) | st.text(alphabet=st.characters(min_codepoint=1, max_codepoint=255), max_size=3) |
                   st.sampled_from(["a", "word", "1", "true"]), max_size=6).map("".join)
floats = st.floats(allow_nan=False, allow_infinity=False, width=64) | st.sampled_from([0.0, -0.0, 1.5, 1e-10, 123456.789, 1e300, -2.5e-7,
                                                                                                 float("inf"), float("-inf"), 1.7976931348623157e308])


# annotation bodies (no body has both a newline and an end-of-comment marker: such an annotation has no text form)
COMMENT_BODIES = [" note", "x", " a */ b", " two\n lines ", "a\nb\nc", "\n", " t\n\tindented\n  more", "#", "//", "/* x", "\"q\"", "${HOME}",
                  " trailing \n", "  lead", "a\r\nb"]


def trees_equal(a, b, path=""):
    """same sections, titles, list lengths and values (floats to the printed precision)"""
    if (a is None) != (b is None):
        return "%s: one side missing" % path
    if a is None:
        return None
    if a["title"] != b["title"]:
        return "%s: title %r vs %r" % (path, a["title"], b["title"])
    if [o["n"] for o in a["opts"]] != [o["n"] for o in b["opts"]]:
        return "%s: option names %r vs %r" % (path, [o["n"] for o in a["opts"]], [o["n"] for o in b["opts"]])
    for oa, ob in zip(a["opts"], b["opts"]):
        p = "%s/%s" % (path, oa["n"])
        if len(oa["v"]) != len(ob["v"]):
            return "%s: %d values vs %d" % (p, len(oa["v"]), len(ob["v"]))
        for i, (x, y) in enumerate(zip(oa["v"], ob["v"])):
            if isinstance(x, dict):
                r = trees_equal(x, y, "%s[%d]" % (p, i))
                if r:
                    return r
            elif oa["t"] == 2:
                fx, fy = float.fromhex(x), float.fromhex(y)
                if abs(fx - fy) > 5e-7 * max(1.0, abs(fx) * 1e-9 + 1.0):
                    return "%s[%d]: float %r vs %r" % (p, i, fx, fy)
            elif x != y:
                return "%s[%d]: %r vs %r" % (p, i, x, y)
    return None


def special_classes(tree, out):
    for o in tree["opts"]:
        for v in o["v"]:
            if isinstance(v, dict):
                if v["title"] is not None:
                    t = bytes.fromhex(v["title"]).decode("latin-1")
                    for ch in ("\"", "\\", "${", "\n"):
                        if ch in t:
                            out.add("title/" + repr(ch))
                    out.add("titled")
                out.add("nested")
                special_classes(v, out)
            elif o["t"] == 3 and isinstance(v, str):
                sv = bytes.fromhex(v).decode("latin-1")
                for ch in ("\"", "\\", "${", "\n", "#", "*/", "//", "'", "\r"):
                    if ch in sv:
                        out.add("str/" + repr(ch))
                if any(ord(c) > 127 for c in sv):
                    out.add("str/high-byte")
        if not o["v"]:
            out.add("empty-or-unset")


class C05:
    id = "C05"
    level = "exploration"
    variants = ("asan",)
    fuzz_target = "fuzz_roundtrip"
    rule = ("schemas of printable kinds (hand-built and random: INT/FLOAT/BOOL/STR scalars and lists, sections incl. "
            "MULTI|TITLE, KEYSTRVAL, CFG_SIMPLE_* options at the top level) x states produced by random accepted texts and/or random setter sequences (typed "
            "setters at indices, setlist/addlist, setmulti, addtsec with arbitrary titles, setters inside the new sections), "
            "strings and titles over all bytes 1..255 weighted towards quotes, backslash, $, {, }, comment markers, newlines; "
            "finite floats; CFGF_COMMENTS on and off, with annotations (one-line and multi-line) from comments placed anywhere "
            "between tokens and from cfg_setcomment on top-level and nested options. Oracle: P1=print(ctx) is accepted by a fresh context of the same "
            "schema, trees equal (floats to printed precision), P2=print(fresh) == P1 when COMMENTS is off, and "
            "print(parse(P2)) == P2 always. Non-trivial = a string/title with a byte outside [A-Za-z0-9_], a nested "
            "section or an emptied/unset option; distinct = distinct printed texts")
    assumptions = ["states with a string option explicitly set to NULL and removed default-created single sections are not "
                   "generated (no text form exists for them)", "NaN and infinities are not generated",
                   "an annotation set through the API that contains both a newline and `*/` has no text form and is not generated"]

    def check_case(self, case, get_ex):
        schema = HAND[case["schema"]] if isinstance(case["schema"], str) else case["schema"]
        flags = case["flags"]
        s = Script()
        # "simple" options keep their value in a variable of the application, one per schema: every context gets its own
        simple = any(o["f"] & F_SIMPLE for o in schema)
        for sid in ((0, 1, 2) if simple else (0,)):
            emit_schema(s, sid, schema)
        for h in (1, 2, 3):
            s.add("init", h, h - 1 if simple else 0, flags)
        for op in case["ops"]:
            if op[0] == "parse":
                s.add("parse_buf", 1, hx(gen_text.render(op[1])))
            else:
                s.add(*op)
        i1 = s.add("dump", 1)
        r1 = s.add("roundtrip", 1, 2)
        i2 = s.add("dump", 2)
        r2 = s.add("roundtrip", 2, 3)
        p3 = s.add("print", 3)
        for h in (1, 2, 3):
            s.add("free", h)
        r = get_ex("asan").run(s)
        t = by_index(r.trace)
        if not r.clean:
            return Outcome(failure=Failure("die/%s" % r.death(), "child died: %s\n%s" % (r.death(), r.stderr.decode("latin-1")[:1500])), classes=["died"])
        P1 = bytes.fromhex(t[r1]["text"]).decode("latin-1")
        P2 = bytes.fromhex(t[r2]["text"]).decode("latin-1")
        P3 = bytes.fromhex(t[p3]["text"]).decode("latin-1")
        tree1 = dump_to_plain(t[i1]["tree"])
        cl = set()
        special_classes(t[i1]["tree"], cl)
        fail = None
        if t[r1]["rc"] != 0:
            fail = Failure("print-rejected/%s" % self.why(P1, unhex_diag(t[r1])), "printed text rejected by the parser: %r\n%r" % (unhex_diag(t[r1]), P1))
        else:
            d = trees_equal(tree1, dump_to_plain(t[i2]["tree"]))
            if d:
                fail = Failure("tree-differs/%s" % d.split(":")[-1].strip().split(" ")[0], "re-parsed tree differs: %s\nprinted: %r" % (d, P1))
            elif not (flags & F_COMMENTS) and P2 != P1:
                fail = Failure("second-print-differs", "P1 %r\nP2 %r" % (P1, P2))
            elif t[r2]["rc"] != 0 or P3 != P2:
                fail = Failure("no-fixpoint", "rc=%d\nP2 %r\nP3 %r" % (t[r2]["rc"], P2, P3))
        if simple:
            cl.add("simple-option")
        return Outcome(classes=sorted(cl) + (["comments"] if flags & F_COMMENTS else []), nontrivial=bool(cl), key=P1, failure=fail,
                       sample={"flags": flags, "printed": P1[:400]})

    @staticmethod
    def why(P1, diags):
        msg = diags[-1][2] if diags else ""
        return msg.split("'")[0].strip().replace(" ", "-")[:40] or "no-diag"

    def strategy(self, tier):
        @st.composite
        def case(draw):
            flags = draw(st.sampled_from([0, 0, F_COMMENTS, F_NOCASE]))
            if draw(st.integers(0, 2)) == 0:
                sc = "c05"
                opts = HAND[sc]
            else:
                opts = draw(schemas(nocase=bool(flags & F_NOCASE), allow_func=False, allow_ptr=False, allow_deprecated=False,
                                    allow_single_title=True, allow_simple=True))
                sc = opts
            ops = []
            handles = {}          # handle -> sub-option list (sections created by addtsec)
            nh = 60
            for _ in range(draw(st.integers(0, 8))):
                k = draw(st.integers(0, 9))
                scope = draw(st.sampled_from([(1, opts)] + [(h, o) for h, o in handles.items()]))
                h, oo = scope
                vals = [o for o in oo if o["k"] in ("int", "float", "bool", "str")]
                if k == 0:
                    toks = draw(gen_text.text_tokens(opts, flags, max_items=4, allow_unknown=False, bad_p=0.0))
                    if flags & F_COMMENTS and draw(st.booleans()):
                        toks = [["c", draw(st.sampled_from([" note", "x", " a */ b", "", " two\n lines "])), draw(st.sampled_from(["hash", "block"]))],
                                ["w", "\n"]] + toks
                        if toks[0][2] == "block" and "*/" in toks[0][1]:
                            toks[0][1] = " plain "
                        if toks[0][2] == "hash":
                            toks[0][1] = toks[0][1].replace("\n", " ")
                    if flags & F_COMMENTS:
                        # comments anywhere between tokens: in front of a nested item they become its annotation
                        for _c in range(draw(st.integers(0, 3))):
                            pos = draw(st.integers(0, len(toks)))
                            body = draw(st.sampled_from(COMMENT_BODIES))
                            style = draw(st.sampled_from(["hash", "block", "block"]))
                            if style == "hash":
                                body = body.replace("\n", " ")
                            elif "*/" in body:
                                body = " plain "
                            toks = toks[:pos] + [["w", "\n"], ["c", body, style], ["w", "\n"]] + toks[pos:]
                    ops.append(["parse", toks])
                    handles.clear()      # a parse may replace titled sections: pointers to them are stale afterwards
                    continue
                if k == 9 and flags & F_COMMENTS and oo and draw(st.booleans()):
                    # annotation through the API, on top-level options and on options of sections made by addtsec
                    o = draw(st.sampled_from(oo))
                    ops.append(["setcomment", h, hx(o["n"]), hx(draw(st.sampled_from(COMMENT_BODIES)))])
                    continue
                secs = [o for o in oo if o["k"] == "sec" and (o["f"] & F_MULTI) and (o["f"] & F_TITLE)]
                if k == 1 and secs:
                    so = draw(st.sampled_from(secs))
                    title = draw(strings)
                    ops.append(["addtsec", h, hx(so["n"]), hx(title), nh])
                    handles[nh] = so.get("sub") or []
                    nh += 1
                    continue
                if not vals:
                    continue
                o = draw(st.sampled_from(vals))
                name = hx(o["n"])
                lst = bool(o["f"] & F_LIST)
                idx = draw(st.integers(0, 3)) if lst else 0
                kind = o["k"]

                def val():
                    if kind == "int":
                        return hx(str(draw(st.integers(-2 ** 63, 2 ** 63 - 1))))
                    if kind == "float":
                        return hx(repr(draw(floats)))
                    if kind == "bool":
                        return hx(str(draw(st.integers(0, 1))))
                    return hx(draw(strings))
                if k in (2, 3, 4, 5):
                    ops.append(["set" + kind, h, name, idx, val()])
                elif k == 6 and lst:
                    n = draw(st.integers(0, 3))
                    vs = [val() for _ in range(n)]
                    if kind in ("int", "bool", "float"):
                        vs = [bytes.fromhex(v[1:]).decode() for v in vs]
                        if kind == "int":
                            vs = [str(max(-2 ** 31, min(2 ** 31 - 1, int(v)))) for v in vs]
                    ops.append([draw(st.sampled_from(["setlist", "addlist"])), h, name, kind[0], n] + vs)
                elif k == 7 and kind == "str":
                    n = draw(st.integers(1, 3))
                    ops.append(["setmulti", h, name, n if lst else 1] + [hx(draw(strings)) for _ in range(n if lst else 1)])
                elif k == 8 and lst:
                    ops.append(["parse", [["s", o["n"], "bare"], ["p", "="], ["p", "{"], ["p", "}"]]] if h == 1 else ["set" + kind, h, name, 0, val()])
                    if h == 1:
                        handles.clear()
                else:
                    ops.append(["set" + kind, h, name, idx, val()])
            return {"schema": sc, "flags": flags, "ops": ops}
        return case()

    def run(self, r):
        r.run_hypothesis(30000 if r.tier == "quick" else 1500000)
        import fuzzdrv
        fuzzdrv.run_fuzz(r, "fuzz_roundtrip", "C05", secs=20 if r.tier == "quick" else 600, prefix=False)


PROP = C05()

"""Reference model of the lexical level of the configuration language (DESIGN Appendix C).

Written from the property text / documentation; where those are silent it follows flex's longest-match semantics of
the published rules.  Texts are latin-1 str (one char = one byte)."""

WORD_EXCL = set(" #\"'\t\n\r={}()+,*")
ESC = {"n": "\n", "r": "\r", "b": "\b", "f": "\f", "a": "\x07", "e": "\x1b", "t": "\t", "v": "\x0b"}
WS = " \t\n\x0b\x0c\r"


class Tok:
    __slots__ = ("kind", "val", "line", "start", "end", "grey", "form")

    def __init__(self, kind, val, line, start, end, grey=False, form=None):
        self.kind = kind      # 'STR' '{' '}' '(' ')' '=' '+' ',' 'COMMENT' 'EOF' 'ERR'
        self.val = val
        self.line = line      # line number on which the token ends (1 + newlines consumed so far)
        self.start = start
        self.end = end
        self.grey = grey      # value not decided by the specification (NUL escapes, empty-vs-default)
        self.form = form

    def __repr__(self):
        return "Tok(%s,%r,l%d)" % (self.kind, self.val, self.line)


def env_subst(body, env):
    """body = text between '${' and '}' -> (value, grey)"""
    grey = False
    i = body.find(":")
    default = None
    name = body
    if i >= 0 and body[i + 1:i + 2] == "-":
        name = body[:i]
        default = body[i + 2:]
    if "\x00" in name:
        name = name.split("\x00")[0]
    val = env.get(name) if "=" not in name else None
    if val is None:
        val = default
    # a variable that is set to the empty string is set: its (empty) value is used, not the default
    if val is None:
        val = ""
    return val, grey


def lex(text, env=None, start_line=1):
    """returns list of Tok ending with EOF or ERR"""
    env = env or {}
    toks = []
    n = len(text)
    p = 0
    line = start_line
    while True:
        if p >= n:
            toks.append(Tok("EOF", None, line, p, p))
            return toks
        ch = text[p]
        if ch in " \t":
            p += 1
            continue
        if ch == "\n":
            line += 1
            p += 1
            continue
        if ch == "#" or (ch == "/" and text[p + 1:p + 2] == "/"):
            e = text.find("\n", p)
            if e < 0:
                e = n
            body = text[p:e].lstrip(ch).strip(WS)
            toks.append(Tok("COMMENT", body, line, p, e, form="line"))
            p = e
            continue
        if ch == "/" and text[p + 1:p + 2] == "*":
            # block comment: ends at the first '*'-run directly followed by '/'
            q = p + 2
            end = None
            nl = 0
            while q < n:
                c = text[q]
                if c == "*":
                    r = q
                    while r < n and text[r] == "*":
                        r += 1
                    if r < n and text[r] == "/":
                        end = (q, r + 1)
                        break
                    q = r
                    continue
                q += 1
            if end is None:
                line += text.count("\n", p, n)
                toks.append(Tok("EOF", None, line, n, n, grey=True))     # unterminated comment: accepted by the code (grey)
                return toks
            body = text[p + 2:end[0]]
            line += body.count("\n")
            toks.append(Tok("COMMENT", body.strip(WS), line, p, end[1], form="block"))
            p = end[1]
            continue
        if ch in "{}()=,":
            toks.append(Tok(ch, ch, line, p, p + 1))
            p += 1
            continue
        if ch == "+":
            if text[p + 1:p + 2] == "=":
                toks.append(Tok("+", "+=", line, p, p + 2))
                p += 2
            else:
                p += 1          # dropped
            continue
        if ch in "*\r":
            p += 1              # dropped by the catch-all rule
            continue
        if ch == '"':
            q = p + 1
            buf = []
            grey = False
            closed = False
            err = False
            while q < n:
                c = text[q]
                if c == '"':
                    closed = True
                    q += 1
                    break
                if c == "$" and text[q + 1:q + 2] == "{":
                    e = text.find("}", q + 2)
                    if e >= 0:
                        body = text[q + 2:e]
                        line += body.count("\n")         # a newline is a newline, also inside ${...}
                        v, g = env_subst(body, env)
                        grey = grey or g
                        buf.append(v)
                        q = e + 1
                        continue
                    buf.append("$")
                    q += 1
                    continue
                if c == "\n":
                    buf.append("\n")
                    line += 1
                    q += 1
                    continue
                if c == "\\":
                    if q + 1 >= n:
                        q += 1       # lone backslash at end of input: dropped
                        continue
                    d = text[q + 1]
                    if d == "\n":
                        line += 1
                        q += 2
                        continue
                    if d.isdigit() and d in "0123456789":
                        r = q + 1
                        while r < n and text[r] in "0123456789":
                            r += 1
                        run = text[q + 1:r]
                        if len(run) <= 3 and all(x in "01234567" for x in run) and int(run, 8) <= 0xFF:
                            v = int(run, 8)
                            if v == 0:
                                grey = True
                            buf.append(chr(v))
                            q = r
                            continue
                        err = True
                        q = r
                        break
                    if d == "x" and text[q + 2:q + 3] != "" and text[q + 2] in "0123456789abcdefABCDEF":
                        r = q + 2
                        while r < n and r < q + 4 and text[r] in "0123456789abcdefABCDEF":
                            r += 1
                        v = int(text[q + 2:r], 16)
                        if v == 0:
                            grey = True
                        buf.append(chr(v))
                        q = r
                        continue
                    if d in ESC:
                        buf.append(ESC[d])
                        q += 2
                        continue
                    buf.append(d)
                    q += 2
                    continue
                buf.append(c)
                q += 1
            if err:
                toks.append(Tok("ERR", "bad escape", line, p, q))
                return toks
            if not closed:
                toks.append(Tok("EOF", None, line, n, n, grey=True))   # unterminated "...: grey (see DESIGN C03)
                return toks
            val = "".join(buf)
            if "\x00" in val:
                val = val.split("\x00")[0]
                grey = True
            toks.append(Tok("STR", val, line, p, q, grey=grey, form="dq"))
            p = q
            continue
        if ch == "'":
            q = p + 1
            buf = []
            closed = False
            while q < n:
                c = text[q]
                if c == "'":
                    closed = True
                    q += 1
                    break
                if c == "\n":
                    buf.append("\n")
                    line += 1
                    q += 1
                    continue
                if c == "\\":
                    if q + 1 >= n:
                        q += 1
                        continue
                    d = text[q + 1]
                    if d == "\n":
                        line += 1
                        q += 2
                        continue
                    if d in "\\'":
                        buf.append(d)
                    else:
                        buf.append("\\" + d)
                    q += 2
                    continue
                buf.append(c)
                q += 1
            if not closed:
                toks.append(Tok("ERR", "unterminated string constant", line, p, n))
                return toks
            toks.append(Tok("STR", "".join(buf), line, p, q, form="sq"))
            p = q
            continue
        if ch == "$" and text[p + 1:p + 2] == "{":
            e = text.find("}", p + 2)
            if e >= 0:
                body = text[p + 2:e]
                v, g = env_subst(body, env)
                line += body.count("\n")
                toks.append(Tok("STR", v, line, p, e + 1, grey=g, form="env"))
                p = e + 1
                continue
        # unquoted word: maximal run of bytes outside the excluded set
        q = p
        while q < n and text[q] not in WORD_EXCL:
            q += 1
        toks.append(Tok("STR", text[p:q], line, p, q, form="bare"))
        p = q

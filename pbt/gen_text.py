"""Token-level text generation and rendering (DESIGN 4.2).

A text is a flat JSON-able list of tokens:
    ["s", value, form]     NAME / STR token; value = decoded text (latin-1 str); form in bare|dq|sq
    ["p", "="], ["p", "+="], ["p", "{"], ["p", "}"], ["p", "("], ["p", ")"], ["p", ","]
    ["w", blanks]          white space (always rendered; at least one between any two other tokens)
    ["c", body, style]     comment; style in hash|slash|block
    ["raw", bytes]         verbatim bytes (used by mutation-based properties only)
"""
from hypothesis import strategies as st

from schema import (F_LIST, F_MULTI, F_TITLE, F_KEYSTRVAL, F_IGNORE_UNKNOWN, F_NOCASE)

BARE_OK = set("abcdefghijklmnopqrstuvwxyzABCDEFGHIJKLMNOPQRSTUVWXYZ0123456789_.:-@%^&!?;<>[]~")


def can_bare(v):
    if not v:
        return False
    # a slash is an ordinary character of an unquoted word as long as no comment starts ("//"; "*" is never written bare)
    return all(ch in BARE_OK or ch == "/" for ch in v) and "//" not in v


def render_dq(v, raw_newline=True):
    out = ['"']
    for i, ch in enumerate(v):
        if ch == '"':
            out.append('\\"')
        elif ch == "\\":
            out.append("\\\\")
        elif ch == "$" and i + 1 < len(v) and v[i + 1] == "{":
            out.append("\\$")
        elif ch == "\n" and not raw_newline:
            out.append("\\n")
        else:
            out.append(ch)
    out.append('"')
    return "".join(out)


def render_sq(v):
    out = ["'"]
    for i, ch in enumerate(v):
        if ch == "'":
            out.append("\\'")
        elif ch == "\\":
            # inside '...' a backslash in front of an ordinary character is itself an ordinary character: written
            # unescaped at even positions, doubled at odd ones, so that both spellings of the same value occur
            if i % 2 == 0 and i + 1 < len(v) and v[i + 1] not in "\\'\n":
                out.append("\\")
            else:
                out.append("\\\\")
        else:
            out.append(ch)
    out.append("'")
    return "".join(out)


def render_token(t):
    k = t[0]
    if k == "p":
        return t[1]
    if k == "w":
        return t[1]
    if k == "raw":
        return t[1]
    if k == "s":
        v, form = t[1], t[2]
        if form == "bare" and can_bare(v):
            return v
        if form == "sq":
            return render_sq(v)
        if form in ("dqc", "sqc"):      # with a backslash-newline continuation in the middle
            r = render_dq(v, raw_newline=False) if form == "dqc" else render_sq(v)
            inner = r[1:-1]
            k = len(inner) // 2
            while k > 0 and inner[k - 1] == "\\" and (k < 2 or inner[k - 2] != "\\"):
                k -= 1
            # never split an escape pair: only split at a position not preceded by an odd run of backslashes
            j = k
            run = 0
            while j > 0 and inner[j - 1] == "\\":
                run += 1
                j -= 1
            if run % 2:
                k -= 1
            return r[0] + inner[:k] + "\\\n" + inner[k:] + r[-1]
        if form == "dqn":
            return render_dq(v, raw_newline=False)
        return render_dq(v)
    if k == "c":
        body, style = t[1], t[2]
        if style == "hash":
            return "#" + body + "\n"
        if style == "slash":
            return "//" + body + "\n"
        return "/*" + body + "*/"
    raise ValueError(t)


def render(tokens):
    """render with a blank between tokens unless a 'w' token already separates them"""
    out = []
    prev_sep = True
    for t in tokens:
        if t[0] == "w":
            out.append(t[1])
            prev_sep = True
            continue
        if not prev_sep:
            out.append(" ")
        r = render_token(t)
        out.append(r)
        prev_sep = r.endswith("\n")
    return "".join(out)


def meaningful(tokens):
    return [t for t in tokens if t[0] in ("s", "p")]


# ---------------------------------------------------------------------------------------------
# value pools
INT_OK = ["0", "1", "5", "-3", "42", "0x1f", "0b101", "017", "-0", "123456789", "0x0", "9223372036854775807",
          "-9223372036854775808", "00"]
# numerals whose acceptance the statement leaves open (rare: a text with one of them is "grey" for most oracles)
INT_GREY = ["-017", "-0x1F", "+0x10", "-010", " 12", "+7", "-0b11"]
INT_BAD = ["x", "1x", "1.5", "0x", "08", "99999999999999999999", "", "--1", "0b2", "1 2"]
FLOAT_OK = ["0", "1.5", "-2", "1e3", ".5", "3.", "-0.25", "1E-2", "100", "6.02e23"]
FLOAT_BAD = ["x", "1.5x", "1e999", "", "1,5", "--1"]
BOOL_OK = ["true", "false", "yes", "no", "on", "off", "True", "FALSE", "Yes", "oN", "OFF"]
BOOL_BAD = ["0", "1", "tru", "", "yess", "nope"]
STR_POOL = ["a", "hello", "x y", "", "a\"b", "back\\slash", "it's", "new\nline", "tab\there", "#nocomment", "//no",
            "/*no*/", "{brace}", "a,b", "(p)", "k=v", "+=", "$", "${", "$HOME", "\xe9t\xe9", "\x01\x7f", "a|b", "'", "\\",
            "trailing ", " leading", "/tmp/", "a/", "/", "/etc/x.conf", "C:\\dir", "^\\d+\\.$", "semi;colon", "0", "true", "very long " * 8]

sep = st.sampled_from([" ", " ", " ", "\n", "\n", "  ", "\t", " \n ", "\n\n", " \t "])
form = st.sampled_from(["bare", "bare", "dq", "sq", "dqn"])


def S(v, f="bare"):
    return ["s", v, f]


def P(x):
    return ["p", x]


@st.composite
def value_tok(draw, kind, bad_p=0.03):
    r = draw(st.floats(0, 1))
    bad = r < bad_p
    if kind == "int":
        v = draw(st.sampled_from(INT_BAD if bad else INT_OK))
        if not bad and draw(st.integers(0, 3)) == 0:
            v = str(draw(st.integers(-10**6, 10**6)))
        elif not bad and draw(st.integers(0, 29)) == 0:
            v = draw(st.sampled_from(INT_GREY))
    elif kind == "float":
        v = draw(st.sampled_from(FLOAT_BAD if bad else FLOAT_OK))
    elif kind == "bool":
        v = draw(st.sampled_from(BOOL_BAD if bad else BOOL_OK))
    else:
        v = draw(st.sampled_from(STR_POOL))
        if draw(st.integers(0, 5)) == 0:
            v = draw(st.text(alphabet=st.characters(min_codepoint=1, max_codepoint=255), max_size=12))
    return S(v, draw(form))


@st.composite
def name_tok(draw, name, ctxflags):
    n = name
    if ctxflags & F_NOCASE and draw(st.booleans()):
        n = n.swapcase()
    return S(n, draw(st.sampled_from(["bare", "bare", "bare", "dq", "sq"])))


UNKNOWN_NAMES = ["unk", "zz9", "nosuch", "Unknown_1"]
TITLES = ["a", "b", "t1", "A", "x y", "it's", "q\"uote", "b\\s", "c:\\t", "", "1", "a|b", "k=v"]
# titles are drawn with a bias towards repeats, also repeats that differ in letter case only
TITLES_W = TITLES + ["a", "A", "a", "A", "b", "B", "t1", "T1"]
KEYS = ["k1", "key", "another-key", "K", "k.2"]


@st.composite
def item(draw, opts, ctxflags, depth, keystrval=False, allow_unknown=True, bad_p=0.03):
    """tokens of one item of a section body whose declared options are opts"""
    toks = []

    def w():
        toks.append(["w", draw(sep)])

    choices = list(opts)
    r = draw(st.integers(0, 19))
    if (not choices) or (r == 0 and allow_unknown and (ctxflags & F_IGNORE_UNKNOWN)) or (r == 1 and bad_p > 0):
        # unknown item (well formed assignment) — accepted only with IGNORE_UNKNOWN / KEYSTRVAL
        if keystrval and not (ctxflags & F_IGNORE_UNKNOWN):
            toks.append(S(draw(st.sampled_from(KEYS)), draw(st.sampled_from(["bare", "dq"]))))
            w()
            toks.append(P("="))
            w()
            toks.append(draw(value_tok("str", 0)))
            return toks
        toks.append(S(draw(st.sampled_from(UNKNOWN_NAMES))))
        w()
        toks.append(P("="))
        w()
        toks.append(draw(value_tok("str", 0)))
        return toks
    if keystrval and r in (2, 3, 4, 5, 6):
        toks.append(S(draw(st.sampled_from(KEYS)), draw(st.sampled_from(["bare", "dq"]))))
        w()
        toks.append(P("="))
        w()
        toks.append(draw(value_tok("str", 0)))
        return toks
    o = draw(st.sampled_from(choices))
    toks.append(draw(name_tok(o["n"], ctxflags)))
    w()
    k = o["k"]
    if k == "sec":
        if o["f"] & F_TITLE:
            toks.append(S(draw(st.sampled_from(TITLES_W)), draw(st.sampled_from(["bare", "dq", "sq"]))))
            w()
        toks.append(P("{"))
        w()
        if depth < 4:
            n = draw(st.integers(0, 3))
            sub = o.get("sub") or []
            for _ in range(n):
                toks.extend(draw(item(sub, ctxflags, depth + 1, bool(o["f"] & F_KEYSTRVAL), allow_unknown, bad_p)))
                w()
        toks.append(P("}"))
        return toks
    if k == "func":
        toks.append(P("("))
        n = draw(st.integers(0, 3))
        if o.get("d") == "include":
            n = 1
        for i in range(n):
            w()
            if o.get("d") == "include":
                toks.append(S(draw(st.sampled_from(["inc_ok.conf", "inc_bad.conf", "missing.conf", "inc_empty.conf",
                                                    "inc_self.conf", "inc_dir", "inc_nonl.conf", "inc_deep0.conf"]))))
            else:
                toks.append(draw(value_tok("str", 0)))
            if i + 1 < n or draw(st.integers(0, 5)) == 0:
                w()
                toks.append(P(","))
        w()
        toks.append(P(")"))
        return toks
    vk = k if k in ("int", "float", "bool") else "str"
    if o["f"] & F_LIST:
        toks.append(P(draw(st.sampled_from(["=", "=", "+="]))))
        w()
        shape = draw(st.integers(0, 5))
        if shape == 0:
            toks.append(draw(value_tok(vk, bad_p)))
        else:
            toks.append(P("{"))
            n = draw(st.integers(0, 4))
            for i in range(n):
                w()
                toks.append(draw(value_tok(vk, bad_p)))
                if i + 1 < n or draw(st.integers(0, 4)) == 0:
                    w()
                    toks.append(P(","))
            w()
            toks.append(P("}"))
    else:
        toks.append(P("="))
        w()
        toks.append(draw(value_tok(vk, bad_p)))
    return toks


@st.composite
def text_tokens(draw, opts, ctxflags, max_items=8, allow_unknown=True, bad_p=0.03):
    n = draw(st.integers(0, max_items))
    toks = []
    for _ in range(n):
        toks.extend(draw(item(opts, ctxflags, 0, False, allow_unknown, bad_p)))
        toks.append(["w", draw(st.sampled_from(["\n", "\n", " ", "\n\n", " \n"]))])
    return toks


@st.composite
def mutate_tokens(draw, toks, max_mut=3):
    """0..max_mut token-level mutations: delete / duplicate / swap / replace"""
    toks = [list(t) for t in toks]
    idx = [i for i, t in enumerate(toks) if t[0] in ("s", "p")]
    n = draw(st.integers(0, max_mut))
    for _ in range(n):
        idx = [i for i, t in enumerate(toks) if t[0] in ("s", "p")]
        if not idx:
            break
        op = draw(st.sampled_from(["del", "dup", "swap", "rep"]))
        i = draw(st.sampled_from(idx))
        if op == "del":
            del toks[i]
        elif op == "dup":
            toks.insert(i, ["w", " "])
            toks.insert(i, list(toks[i + 1]))
        elif op == "swap":
            j = draw(st.sampled_from(idx))
            toks[i], toks[j] = toks[j], toks[i]
        else:
            toks[i] = draw(st.sampled_from([P("="), P("+="), P("{"), P("}"), P("("), P(")"), P(","), S("x"), S("1"), S("")]))
    return toks


@st.composite
def item_list(draw, opts, ctxflags, max_items=8, allow_unknown=True, bad_p=0.0):
    """list of items (each a token list) of a top-level body"""
    n = draw(st.integers(0, max_items))
    return [draw(item(opts, ctxflags, 0, False, allow_unknown, bad_p)) for _ in range(n)]

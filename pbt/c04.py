"""C04 — text-to-number/boolean conversion is exact or rejected."""
import itertools

from hypothesis import strategies as st

from execclient import Script, hx, by_index
from model_lang import conv_int, conv_float, conv_bool
from runner import Failure, Outcome, h64
from schema import emit_schema, o_int, o_float, o_bool, o_list

SCHEMA = [o_int("i", 5), o_float("f", "1.5"), o_bool("b", 1), o_list("int", "il", "{5}"), o_list("float", "fl", "{1.5}"),
          o_list("bool", "bl", "{true}")]
DEFAULT = {"int": 5, "float": 1.5, "bool": 1}
OPT = {"int": ("i", "il"), "float": ("f", "fl"), "bool": ("b", "bl")}
INT_ALPHA = ["0", "1", "7", "8", "9", "a", "f", "x", "b", "X", "+", "-", ".", "e", " "]
FLT_ALPHA = ["0", "1", "9", ".", "e", "E", "+", "-", "x", "p", "n", "a", "i", "f", " "]
ERRNOS = [0, 34, 22, 33]          # none, ERANGE, EINVAL, EDOM
ROUTES = ["parse", "setmulti", "setopt", "parse-list", "setmulti-list", "parse-list-bare", "parse-list-append"]
LONG_MAX = 2 ** 63 - 1


def boundary_ints():
    out = []
    for v in (LONG_MAX, LONG_MAX + 1, LONG_MAX - 1, -LONG_MAX - 1, -LONG_MAX - 2, -LONG_MAX, 2 ** 64, 2 ** 64 - 1, 2 ** 32, 2 ** 31):
        out.append(str(v))
        if v >= 0:
            out += ["0x%x" % v, "0%o" % v, "0b" + bin(v)[2:], "-0x%x" % v, "+%d" % v]
    out += ["9" * 30, "-" + "9" * 30, "0x" + "f" * 17, "0" + "7" * 30, "0b" + "1" * 65, "0" * 40 + "1", "1" + "0" * 18, "1" + "0" * 19,
            "", " ", "0x", "0b", "0X10", "0B1", "-", "+", "--1", "+-1", "1-", "0x-5", "0-7", "0 7", "0b+1", "0x 5", "08", "09", "0b2",
            "1e3", "1.0", "12abc", "abc", "0xg", " 5", "5 ", "\t5", "5\n", "+5", "-0x10", "-010", "0x0x5", "0b0b1", "0x0b1", "0b0x1",
            "\xb3", "1_000", "1,000", "0o17", "0x1p3", "1l", "1L", "1u"]
    return out


def boundary_floats():
    return ["1e308", "1.7976931348623157e308", "1.7976931348623159e308", "1.8e308", "1e309", "-1e309", "1e999", "1e-999", "1e-308",
            "2.2250738585072014e-308", "4.9e-324", "1e-324", "0e999", "0.0", "-0.0", "1" + "0" * 400, "0." + "0" * 400 + "1", "1" * 400,
            "1.5", "1.5x", "x1.5", "1..5", "1.5.", ".", "e5", "1e", "1e+", "1e5.5", "--1", "+1", " 1", "1 ", "inf", "-inf", "nan", "INF",
            "infinity", "NaN", "nan(1)", "0x10", "0x1p4", "0x1.8p1", "1,5", "1d5", "1f", "", " ", "1e+5", "1E-5", ".5", "5.", "-.5", "-5.",
            "+.5", "1.0e0", "007", "00.5", "1e05"]


def bool_tokens():
    words = ["true", "yes", "on", "false", "no", "off"]
    out = set()
    for w in words:
        for mask in range(1 << len(w)):
            out.add("".join(c.upper() if mask >> i & 1 else c for i, c in enumerate(w)))
        for i in range(len(w) + 1):
            for c in "xX1 ":
                out.add(w[:i] + c + w[i:])
            if i < len(w):
                out.add(w[:i] + w[i + 1:])
                out.add(w[:i] + "x" + w[i + 1:])
    out |= {"", "0", "1", "t", "f", "y", "n", "T", "enable", "disabled", "TRUE ", " true", "true\n", "yesno", "onoff", "o", "of", "offf"}
    return sorted(out)


def quote(tok):
    return "\"" + tok.replace("\\", "\\\\").replace("\"", "\\\"") + "\""


class C04:
    id = "C04"
    level = "exploration"
    variants = ("fast", "asan")
    rule = ("every token up to length 4 (quick) / 5 (thorough) over the numeral alphabets (integers: 0 1 7 8 9 a f x b X + - "
            ". e blank; floats: 0 1 9 . e E + - x p n a i f blank) through seven routes (parser scalar, parser list element, list assigned / appended one value without braces, "
            "cfg_setmulti scalar/list, cfg_setopt) under four ambient errno values (0, ERANGE, EINVAL, EDOM); length 5 "
            "(quick) / 6 (thorough) through the parser route; boundary numerals around LONG_MIN/LONG_MAX in four radices, "
            "DBL_MAX, huge numerals; all case variants and one-edit neighbours of the six boolean words. Oracle: three-"
            "valued (must accept with exact value / must reject leaving the old value / grey) derived from the statement; "
            "non-trivial = token that is not a plain in-range decimal numeral; distinct = distinct (type, route, errno, token)")
    assumptions = [
        "grey zone (DESIGN C04): sign before a radix prefix, leading blanks, doubled prefix, explicit plus, inf/nan/hex floats, "
        "underflow: either rejected or accepted with a value from the stated set",
        "expected float values come from Python's correctly rounded float()",
    ]

    def script(self, kind, route, en, toks):
        s = Script()
        emit_schema(s, 0, SCHEMA)
        name, lname = OPT[kind]
        idx = []
        for tok in toks:
            s.add("newcase")
            s.add("init", 1, 0, 0)
            if route in ("setopt",):
                s.add("getopt", 1, hx(name), 9)
            if en:
                s.add("errno", en)
            if route == "parse":
                ip = s.add("parse_buf", 1, hx("%s = %s\n" % (name, quote(tok))))
            elif route == "parse-list":
                ip = s.add("parse_buf", 1, hx("%s = {%s}\n" % (lname, quote(tok))))
            elif route == "parse-list-bare":            # a list assigned one value without braces
                ip = s.add("parse_buf", 1, hx("%s = %s\n" % (lname, quote(tok))))
            elif route == "parse-list-append":
                ip = s.add("parse_buf", 1, hx("%s = {}\n%s += %s\n" % (lname, lname, quote(tok))))
            elif route == "setmulti":
                ip = s.add("setmulti", 1, hx(name), 1, hx(tok))
            elif route == "setmulti-list":
                ip = s.add("setmulti", 1, hx(lname), 1, hx(tok))
            else:
                ip = s.add("setopt", 1, 9, hx(tok))
            idd = s.add("dump", 1)
            idx.append((ip, idd))
        s.add("newcase")
        return s, idx

    def judge(self, kind, route, en, tok, t, ip, idd):
        if ip not in t or idd not in t:
            return "no-result", "no result"
        e = t[ip]
        ok = (e.get("rc") == 0) if "rc" in e else bool(e.get("ok"))
        exp = {"int": conv_int, "float": conv_float, "bool": conv_bool}[kind](tok)
        name = OPT[kind][1 if "list" in route else 0]
        vals = None
        for o in t[idd]["tree"]["opts"]:
            if bytes.fromhex(o["n"]).decode() == name:
                vals = o["v"]
        got = vals[0] if vals else None
        if kind == "float" and got is not None:
            got = float.fromhex(got)
        where = "%s/%s/errno=%d" % (kind, route, en)
        if exp[0] == "ok":
            if not ok:
                return "rejected-valid/%s/%s" % (kind, "errno" if en else route), "%s token %r refused (%r)" % (where, tok, e.get("diag"))
            if len(vals) != 1 or got != exp[1]:
                return "wrong-value/%s" % kind, "%s token %r -> %r, expected %r" % (where, tok, vals, exp[1])
        elif exp[0] == "bad":
            if ok:
                return "accepted-invalid/%s/%s" % (kind, self.badclass(kind, tok)), "%s token %r accepted as %r" % (where, tok, vals)
            if len(vals or []) != 1 or got != DEFAULT[kind]:
                if route.startswith("parse"):
                    return None, None          # what a rejected *parse* leaves behind is not C04's business
                return "reject-changed-value/%s/%s" % (kind, route), "%s token %r refused but value now %r" % (where, tok, vals)
        else:
            if ok and exp[1] is not None and got not in exp[1]:
                return "grey-wrong-value/%s" % kind, "%s token %r accepted as %r, allowed %r" % (where, tok, vals, exp[1])
        return None, None

    @staticmethod
    def badclass(kind, tok):
        if kind != "int":
            return "other"
        import re
        if tok == "" or re.fullmatch(r"0[xb]", tok):
            return "no-digit"
        if re.fullmatch(r"0[xb]?[ \t+-].*", tok, re.S):
            return "sign-or-blank-after-prefix"
        return "other"

    def check_case(self, case, get_ex):
        kind, route, en, toks = case["kind"], case["route"], case["errno"], case["toks"]
        single = len(toks) == 1
        s, idx = self.script(kind, route, en, toks)
        r = get_ex("asan" if single else "fast").run(s, cpu=30, wall=120)
        t = by_index(r.trace)
        keys, cc, fails = [], {}, []
        crashed = False
        for tok, (ip, idd) in zip(toks, idx):
            exp = {"int": conv_int, "float": conv_float, "bool": conv_bool}[kind](tok)
            cl = "%s/%s" % (kind, exp[0])
            cc[cl] = cc.get(cl, 0) + 1
            plain = exp[0] == "ok" and tok.isdigit() and not tok.startswith("0")
            if not plain:
                keys.append(h64("%s\x00%s\x00%d\x00%s" % (kind, route, en, tok)))
            sig, msg = self.judge(kind, route, en, tok, t, ip, idd)
            if sig is None:
                continue
            if sig == "no-result" and not single:
                if crashed:
                    continue
                crashed = True
            if not single:
                s1, idx1 = self.script(kind, route, en, [tok])
                r1 = get_ex("asan").run(s1)
                sig, msg = self.judge(kind, route, en, tok, by_index(r1.trace), idx1[0][0], idx1[0][1])
                if sig == "no-result":
                    sig, msg = "die/%s" % r1.death(), r1.stderr.decode("latin-1")[:1500]
            elif sig == "no-result":
                sig, msg = "die/%s" % r.death(), r.stderr.decode("latin-1")[:1500]
            if sig:
                fails.append(Failure(sig, msg, {"kind": kind, "route": route, "errno": en, "toks": [tok]}))
        return Outcome(count=len(toks), keys=keys, class_counts=cc, failure=fails[0] if fails else None, failures=fails[1:8],
                       nontrivial=bool(keys), sample={"kind": kind, "route": route, "errno": en, "token": toks[len(toks) // 2]})

    def run(self, r):
        L = 4 if r.tier == "quick" else 5
        B = 500
        cases = []

        def add(kind, route, en, toks):
            for i in range(0, len(toks), B):
                cases.append({"kind": kind, "route": route, "errno": en, "toks": toks[i:i + B]})

        ints = ["".join(t) for n in range(0, L + 1) for t in itertools.product(INT_ALPHA, repeat=n)]
        flts = ["".join(t) for n in range(0, L + 1) for t in itertools.product(FLT_ALPHA, repeat=n)]
        for route in ROUTES:
            for en in ERRNOS:
                if en and route not in ("parse", "setmulti", "setopt"):
                    continue
                add("int", route, en, ints)
                add("float", route, en, flts)
                add("int", route, en, boundary_ints())
                add("float", route, en, boundary_floats())
                add("bool", route, en, bool_tokens())
        # every byte 1..255 before, after and inside valid numerals (control characters, high bytes, ...)
        base_i = [t for t in ints if conv_int(t)[0] == "ok" and 1 <= len(t) <= 3]
        base_f = [t for t in flts if conv_float(t)[0] == "ok" and 1 <= len(t) <= 3][::3]
        for kind, base in (("int", base_i), ("float", base_f)):
            toks = []
            for t in base:
                for b in range(1, 256):
                    ch = chr(b)
                    toks.append(t + ch)
                    toks.append(ch + t)
                    if len(t) > 1:
                        toks.append(t[:1] + ch + t[1:])
            for route in ("parse", "setmulti", "setopt"):
                add(kind, route, 0, toks)
        ints5 = ["".join(t) for t in itertools.product(INT_ALPHA, repeat=L + 1)]
        flts5 = ["".join(t) for t in itertools.product(FLT_ALPHA, repeat=L + 1)]
        add("int", "parse", 0, ints5)
        add("float", "parse", 0, flts5)
        add("int", "setmulti", 34, ints5)
        r.run_cases(cases, chunksize=4)
        r.exhaustive = True
        r.run_hypothesis(300 if r.tier == "quick" else 5000)

    def strategy(self, tier):
        @st.composite
        def case(draw):
            kind = draw(st.sampled_from(["int", "float"]))
            alpha = INT_ALPHA if kind == "int" else FLT_ALPHA
            toks = ["".join(draw(st.lists(st.sampled_from(alpha + ["0", "1", "9", "9"]), min_size=6, max_size=24))) for _ in range(40)]
            return {"kind": kind, "route": draw(st.sampled_from(ROUTES)), "errno": draw(st.sampled_from(ERRNOS)), "toks": toks}
        return case()


PROP = C04()

"""C02 — no input text can corrupt memory, hang or kill the host process."""
import os

from hypothesis import strategies as st

import gen_text
from execclient import Script, hx, by_index
from runner import Failure, Outcome, h64
from schema import HAND, emit_schema, F_COMMENTS, F_IGNORE_UNKNOWN, F_NOCASE, F_KEYSTRVAL

FIXTURE_FILES = {
    "inc_ok.conf": "i = 11\n",
    "inc_x.conf": "x = 5\n",
    "inc_single.conf": "single { x = 3 }\ntm a { }\n",
    "inc_bad.conf": "i = notanumber\n",
    "inc_empty.conf": "",
    "inc_self.conf": "include(inc_self.conf)\n",
    "inc_nonl.conf": "i = 12",
    "inc_unterminated.conf": "s = \"abc",
    "inc_deep0.conf": "include(inc_deep1.conf)\n",
}
for _k in range(1, 12):
    FIXTURE_FILES["inc_deep%d.conf" % _k] = ("include(inc_deep%d.conf)\n" % (_k + 1)) if _k < 11 else "i = 13\n"


def fixture_dir():
    d = os.path.join(os.environ.get("VERIF_WORK", "/verif/work/misc"), "fx%d" % os.getpid())
    if not os.path.isdir(d):
        os.makedirs(os.path.join(d, "inc_dir"), exist_ok=True)
        for n, c in FIXTURE_FILES.items():
            with open(os.path.join(d, n), "w", encoding="latin-1") as f:
                f.write(c)
    return d


def text_arg(parts):
    """parts: list of ["x", str] | ["r", n, str]  ->  script argument"""
    out = []
    for p in parts:
        if p[0] == "x":
            out.append("x" + p[1].encode("latin-1").hex())
        else:
            out.append("r%d*%s" % (p[1], p[2].encode("latin-1").hex()))
    return "+".join(out) if out else "x"


def text_len(parts):
    return sum(len(p[1]) if p[0] == "x" else p[1] * len(p[2]) for p in parts)


def head(parts, n=120):
    s = ""
    for p in parts:
        s += p[1] if p[0] == "x" else ("<%d*%r>" % (p[1], p[2]))
        if len(s) > n:
            break
    return s[:n]


ENV_SIZES = (4, 5, 6, 8, 12, 16)      # environment variables B<k> hold 2^k bytes


class C02:
    id = "C02"
    level = "exploration"
    variants = ("asan", "fast")
    fuzz_target = "fuzz_parse"
    rule = ("cases = (hand-built schema, context flags, delivery route buffer|stream|file, text); texts are directed "
            "pathological shapes (size-parameterised), grammar-derived texts from the schema pushed through 0-6 "
            "byte-level mutations (insert/delete/flip/truncate/splice), plus coverage-guided libFuzzer inputs "
            "(counted separately under 'fuzz'); a case is non-trivial when its text holds at least two different "
            "structural byte classes among = { } ( ) , quote, comment marker, backslash, $ or is a directed shape; "
            "distinct = distinct (schema, flags, route, text) hashes")
    assumptions = [
        "termination is approximated by a CPU-time limit per child (5 s quick, re-confirmed three times)",
        "uninitialised reads are visible only through ASan's libc interceptors and the 0xA5 malloc fill of the shim",
        "stack depth explored up to the largest directed nesting shape stated in class_histogram",
        "include() targets are restricted to a fixture directory (regular files, a directory, missing names)",
    ]

    # ---------------------------------------------------------------------------------------
    def check_case(self, case, get_ex):
        if case.get("memcheck"):
            return self.check_memcheck(case)
        schema = HAND[case["schema"]]
        flags = case["flags"]
        via = case.get("via", "buf")
        parts = case["text"]
        fx = fixture_dir()
        s = Script()
        emit_schema(s, 0, schema)
        s.add("cwd", hx(fx))
        if case.get("stack"):
            s.add("stacklimit", case["stack"])
        for k in ENV_SIZES:
            s.add("env", hx("B%d" % k), "r%d*%s" % (2 ** k, "b".encode().hex()))
        if case.get("noerr"):
            s.add("init", 1, 0, flags, "noerr")      # no error function: diagnostics go to stderr, never to stdout
        else:
            s.add("init", 1, 0, flags)
        if case.get("sp"):
            # the context has a search path (two directories): sections share it, includes and cfg_parse() walk it
            s.add("searchpath", 1, hx(fx))
            s.add("searchpath", 1, hx(os.path.join(fx, "inc_dir")))
        if via == "file":
            fn = os.path.join(fx, "case_input.conf")
            s.add("mkfile", hx(fn), text_arg(parts))
            ip = s.add("parse_file", 1, hx(fn))
        else:
            ip = s.add("parse_fp" if via == "fp" else "parse_buf", 1, text_arg(parts))
        s.add("dump", 1)
        s.add("print", 1)
        ie = s.add("parse_buf", 1, hx(""))
        has_i = any(o["n"] == "i" for o in schema)
        iv = s.add("parse_buf", 1, hx("i = 1\n")) if has_i else None
        ig = s.add("getint", 1, hx("i"), 0) if has_i else None
        s.add("dump", 1)
        s.add("free", 1)
        s.add("allocstat")
        big = text_len(parts) > 70000
        # the scanner's string buffer grows by 32 bytes per step: quadratic under ASan's copying realloc; texts
        # with huge tokens run on the UBSan-only build with a generous limit
        r = get_ex("fast", 60, 120).run(s) if big else get_ex("asan", 5).run(s)
        t = by_index(r.trace)
        txt = head(parts, 4000) if not big else head(parts, 200)
        classes = [case.get("shape", "generated")]
        structural = sum(1 for ch in "={}(),\"'#\\$" if any(ch in (p[1] if p[0] == "x" else p[2]) for p in parts))
        nontrivial = structural >= 2 or "shape" in case
        fail = None
        if not r.clean:
            d = r.death()
            fr = [f for f in r.frames() if f.startswith(("cfg_", "q", "trim_", "call_", "parse_title", "yy"))]
            where = fr[0] if fr else "?"
            last = "after-" + (r.trace[-1].get("c") if r.trace else "none")
            fail = Failure("die/%s/%s/%s" % (d, where, last), "child died: %s during '%s'\nstderr: %s" %
                           (d, last, r.stderr.decode("latin-1")[:1800]))
        else:
            rc = t[ip]["rc"]
            if rc not in ((0, 1, -1) if via == "file" else (0, 1)):
                fail = Failure("rc/%d" % rc, "parse returned %d" % rc)
            elif r.stdout_total:
                fail = Failure("stdout", "library wrote %d bytes to standard output: %r" % (r.stdout_total, r.stdout[:80]))
            elif t[ie]["rc"] != 0:
                fail = Failure("after/empty-rc", "parse of the empty text afterwards returned %d" % t[ie]["rc"])
            elif iv is not None and (t[iv]["rc"] != 0 or t[ig]["v"] != 1):
                fail = Failure("after/unusable", "context not usable afterwards: parse('i = 1') rc=%d, i=%r, diag=%r" %
                               (t[iv]["rc"], t[ig]["v"], t[iv].get("diag")))
        return Outcome(classes=classes, nontrivial=nontrivial, key=[case["schema"], flags, via, h64(repr(parts))],
                       failure=fail, sample={"schema": case["schema"], "flags": flags, "via": via, "text": txt[:300]})

    # ---------------------------------------------------------------------------------------
    def directed(self, tier):
        K = 5 if tier == "thorough" else 4
        shapes = []

        def add(name, parts, schemas=("mixed",), flagsets=(0, F_COMMENTS | F_IGNORE_UNKNOWN), vias=("buf",)):
            for sc in schemas:
                for fl in flagsets:
                    for via in vias:
                        shapes.append({"schema": sc, "flags": fl, "via": via, "text": parts, "shape": name})

        X = lambda s: ["x", s]
        R = lambda n, s: ["r", n, s]
        for k in (5, 6):
            n = 10 ** k
            add("nest-unknown-1e%d" % k, [R(n, "u {\n"), R(n, "}\n")], flagsets=(F_IGNORE_UNKNOWN,))
            add("nest-unknown-titled-1e%d" % k, [R(n, "u t {\n"), R(n, "}\n")], flagsets=(F_IGNORE_UNKNOWN,))
            add("nest-unknown-list-1e%d" % k, [R(n, "u = {"), R(n, "}")], flagsets=(F_IGNORE_UNKNOWN,))
        for k in range(0, K + 1):
            n = 10 ** k
            add("nest-unknown-1e%d" % k, [R(n, "u {\n"), R(n, "}\n")], flagsets=(F_IGNORE_UNKNOWN,))
            add("nest-unknown-titled-1e%d" % k, [R(n, "u t {\n"), R(n, "}\n")], flagsets=(F_IGNORE_UNKNOWN,))
            add("nest-open-only-1e%d" % k, [R(n, "u {\n")], flagsets=(F_IGNORE_UNKNOWN, 0))
            add("braces-1e%d" % k, [R(n, "{")])
            add("close-braces-1e%d" % k, [R(n, "}")])
            add("list-open-1e%d" % k, [X("il = "), R(n, "{")])
            add("parens-1e%d" % k, [X("fn"), R(n, "(")])
            add("list-elems-1e%d" % k, [X("il = {"), R(n, "1, "), X("}")])
            add("func-args-1e%d" % k, [X("fn("), R(n, "a, "), X(")")])
            add("items-1e%d" % k, [R(n, "i = 3\n")])
            add("multi-secs-1e%d" % k, [R(n, "tm a { }\n")])
            add("multi-secs-distinct-1e%d" % k, [R(n, "multi { x = 1 }\n")], schemas=("sections",))
            add("comments-1e%d" % k, [R(n, "# c\n/* d */ // e\n"), X("i = 3")], flagsets=(0, F_COMMENTS))
            add("ptr-list-1e%d" % k, [X("pl = {"), R(n, "v, "), X("}")], schemas=("ptrs",))
        for k in range(0, (24 if tier == "thorough" else 18) + 1, 2):
            n = 2 ** k
            add("tok-bare-2e%d" % k, [X("s = "), R(n, "a")])
            add("tok-dq-2e%d" % k, [X("s = \""), R(n, "a"), X("\"")])
            add("tok-sq-2e%d" % k, [X("s = '"), R(n, "a"), X("'")])
            add("tok-dq-open-2e%d" % k, [X("s = \""), R(n, "a")])
            add("tok-sq-open-2e%d" % k, [X("s = '"), R(n, "a")])
            add("tok-hash-2e%d" % k, [X("#"), R(n, "a"), X("\ni = 3")], flagsets=(0, F_COMMENTS))
            add("tok-hashes-2e%d" % k, [R(n, "#"), X("\ni = 3")], flagsets=(0, F_COMMENTS))
            add("tok-block-2e%d" % k, [X("/*"), R(n, "a*"), X("*/ i = 3")], flagsets=(0, F_COMMENTS))
            add("tok-block-open-2e%d" % k, [X("/*"), R(n, "a")], flagsets=(0, F_COMMENTS))
            add("tok-env-2e%d" % k, [X("s = ${"), R(n, "a"), X("}")])
            add("tok-env-default-2e%d" % k, [X("s = \"${X:-"), R(n, "a"), X("}\"")])
            add("tok-title-2e%d" % k, [X("tm "), R(n, "a"), X(" { }")])
            add("tok-name-2e%d" % k, [R(n, "a"), X(" = 1")], flagsets=(0, F_IGNORE_UNKNOWN))
            add("tok-blank-2e%d" % k, [X("i ="), R(n, " "), X("1")])
            add("tok-newlines-2e%d" % k, [X("i ="), R(n, "\n"), X("1")])
            add("tok-escapes-2e%d" % k, [X("s = \""), R(n, "\\x41\\101\\n"), X("\"")])
            add("tok-cont-2e%d" % k, [X("s = \""), R(n, "\\\n"), X("\"")])
        # stack use must not grow with the input: long names, path steps, titles, values, arguments under a 256 kB stack
        for k in (12, 16, 19, 20):
            n = 2 ** k
            for nm, parts in (("name", [R(n, "a"), X(" = 1")]), ("path-step", [R(n, "a"), X("|x = 1")]), ("path-step-title", [R(n, "a"), X("=t|x = 1")]),
                              ("title", [X("tm "), R(n, "a"), X(" { }")]), ("bare-value", [X("s = "), R(n, "a")]), ("func-arg", [X("fn("), R(n, "a"), X(")")]),
                              ("path-second-step", [X("single|"), R(n, "a"), X("|x = 1")])):
                shapes.append({"schema": "mixed", "flags": 0, "via": "buf", "text": parts, "shape": "small-stack-%s-2e%d" % (nm, k), "stack": 262144})
                shapes.append({"schema": "mixed", "flags": F_IGNORE_UNKNOWN, "via": "buf", "text": parts, "shape": "small-stack-%s-2e%d" % (nm, k), "stack": 262144})
        # every count of *distinct* items up to 80 and a few large ones: tables that grow by an item at a time (free-form
        # keys, section instances, list elements, ignored names) have their boundaries at small multiples
        for n in list(range(1, 81)) + [127, 128, 129, 255, 256, 257, 1000, 4097]:
            keys = "".join("k%d = v%d\n" % (i, i) for i in range(n))
            add("distinct-keys-%d" % n, [X("kv {\n" + keys + "}\n")], schemas=("mixed",), flagsets=(0,))
            add("distinct-keys-%d" % n, [X("kv {\n" + keys + "}\nkvn { " + keys.replace("\n", " ") + "}\nkvm t { " + keys + "} kvm u { " + keys + "k0 = again }\n")],
                schemas=("keyval",), flagsets=(0, F_COMMENTS))
            add("distinct-keys-root-%d" % n, [X(keys)], schemas=("mixed",), flagsets=(F_KEYSTRVAL, F_IGNORE_UNKNOWN))
            add("distinct-titles-%d" % n, [X("".join("tm t%d { x = %d }\n" % (i, i) for i in range(n)))], flagsets=(0,))
            add("distinct-appends-%d" % n, [X("".join("il += %d\nsl += e%d\n" % (i, i) for i in range(n)))], flagsets=(0,))
        # with a search path: sections created, replaced (same title again), re-opened, nested, removed by a failing parse;
        # includes afterwards walk the path
        for body in ("tm a { }\ntm a { }\n", "tm a { x = 1 }\ntm b { }\ntm a { x = 2 }\ninclude(\"inc_ok.conf\")\n", "tm a { }\ntm A { }\ntm a { }\n",
                     "single { x = 1 }\nsingle { x = 2 }\ninclude(\"inc_ok.conf\")\n", "tm a { }\ntm a {\n", "tm a { }\ntm a { zz = 1 }\n",
                     "tm a { include(\"inc_ok.conf\") }\ntm a { include(\"inc_ok.conf\") }\n", "kv { a = 1 }\nkv { a = 2 }\ninclude(\"missing.conf\")\n",
                     "include(\"inc_ok.conf\")\ninclude(\"inc_deep0.conf\")\n", "tm a { }\n" * 40, "fn(a)\ntm t { }\ntm t { }\nfn(b)\ninclude(\"inc_bad.conf\")\n"):
            for fl in (0, F_NOCASE, F_COMMENTS | F_IGNORE_UNKNOWN):
                for via in ("buf", "file"):
                    shapes.append({"schema": "mixed", "flags": fl, "via": via, "text": [X(body)], "shape": "with-search-path", "sp": True})
        for k in ENV_SIZES:
            add("tok-env-set-2e%d" % k, [X("s = \"x${B%d}y\"" % k)])
            add("tok-env-set-bare-2e%d" % k, [X("s = ${B%d}${B%d}" % (k, k))])
        unterminated = ["\"abc", "'abc", "/* abc", "${abc", "s = \"abc\\", "s = 'abc\\", "\\", "fn(", "fn(a", "fn(a,",
                        "il = {", "il = {1,", "il = {1", "tm a {", "tm a", "tm", "i =", "i", "i +=", "il +=", "single {",
                        "single { x =", "kv { k =", "s = \"a${", "s = \"${X", "s = ${X:-", "p =", "pl = {a,", "/*", "/", "//",
                        "#", "\"", "'", "$", "${", "${}", "s = \"\\", "s = \"\\x", "s = \"\\0", "s = \"\\400\"", "s = \"\\9\"",
                        "s = \"\\18\"", "s = \"\\x4", "+", "+=", "=", ",", "(", ")", "{", "}", "*", "*/", "\r", "\r\n",
                        "\x01", "\xff", "i = 3\r\ns = a\r\n", "tm \"a\" {}", "tm '' {}", "tm \"\" {} tm \"\" {}"]
        allflags = (0, F_COMMENTS, F_IGNORE_UNKNOWN, F_NOCASE, F_COMMENTS | F_IGNORE_UNKNOWN | F_NOCASE)
        for u in unterminated:
            add("unterminated", [X(u)], flagsets=allflags, vias=("buf", "fp", "file"))
            shapes.append({"schema": "mixed", "flags": 0, "via": "buf", "text": [X("i = 1\n" + u + "\nzz = 1\n")], "shape": "no-error-function", "noerr": True})
            add("unterminated-after", [X("i = 2\n" + u)], flagsets=(0, F_COMMENTS))
        # diagnostics with long ingredients: file names (an include through a ./-padded path), option names, values;
        # with the caller's error function and with the library's own reporting to stderr
        for n in (10, 100, 250, 260, 300, 500, 1000, 1900):
            longpath = "./" * n
            for noerr in (False, True):
                for body in ("include(\"%sinc_bad.conf\")\n" % longpath, "include(\"%smissing.conf\")\n" % longpath,
                             "include(\"%sinc_ok.conf\")\n%s = 1\n" % (longpath, "z" * (2 * n)),
                             "include(\"%sinc_ok.conf\")\ni = %s\n" % (longpath, "9" * (2 * n))):
                    shapes.append({"schema": "mixed", "flags": 0, "via": "buf", "text": [X(body)], "shape": "long-diagnostic", "noerr": noerr})
        # text that ends up inside a diagnostic must never be taken for a format: conversion specifications in file
        # names, option names, values and titles
        for spec in ("%s%s%s%s%s%s", "%n", "%1$s%2$s", "%99999d", "%*d%*d", "%ls%ls", "%%%s", "%"):
            for noerr in (False, True):
                for body in ("include(\"/nonexistent/%s\")\n" % spec, "include(\"%s\")\n" % spec, "%s = 1\n" % spec, "i = \"%s\"\n" % spec,
                             "tm \"%s\" { zz = 1 }\n" % spec, "fn(%s\n" % spec, "i += \"%s\"\n" % spec, "single { \"%s\" }\n" % spec,
                             "b = \"%s\"\n" % spec, "f = \"%s\"\n" % spec):
                    shapes.append({"schema": "mixed", "flags": 0, "via": "buf", "text": [X(body)], "shape": "format-in-diagnostic", "noerr": noerr})
        for cm in ["#", "//", "/**/", "/* */", "##", "# ", "//\n", "#\n", "/*\n*/", "/***/", "/* * */", "#\t", "// \t "]:
            for pre in ["", "i = 1\n"]:
                for post in ["", "\n", "\ni = 3\n", " i = 3"]:
                    add("empty-comment", [X(pre + cm + post)], flagsets=(0, F_COMMENTS), vias=("buf", "file"))
        for inc in ["inc_ok.conf", "inc_bad.conf", "missing.conf", "inc_empty.conf", "inc_self.conf", "inc_dir",
                    "inc_nonl.conf", "inc_deep0.conf", "inc_deep1.conf", "inc_deep2.conf", "inc_unterminated.conf", "",
                    ".", "..", "inc_dir/", "./inc_ok.conf", "~", "~/", "~nosuchuser/x", "~root", "~root/nothing"]:
            for tail in ["", "\ni = 4\n"]:
                add("include", [X("include(\"%s\")%s" % (inc, tail))], schemas=("funcs", "mixed"), flagsets=(0,),
                    vias=("buf", "file"))
                add("include-in-sec", [X("sec { include(\"%s\") }%s" % (inc, tail))], schemas=("funcs",), flagsets=(0,))
        for inc in ["inc_bad.conf", "missing.conf", "inc_self.conf", "inc_dir", "inc_unterminated.conf"]:
            add("include-repeat", [R(12, "include(\"%s\")\n" % inc)], schemas=("funcs",), flagsets=(0,))
        for b in range(1, 256):
            add("single-byte", [X(chr(b))], flagsets=(0,))
            add("byte-as-value", [X("s = " + chr(b) + "\n")], flagsets=(0,))
            add("byte-in-dq", [X("s = \"" + chr(b) + "\"\n")], flagsets=(0,))
            add("escape-byte", [X("s = \"\\" + chr(b) + "\"\n")], flagsets=(0,))
            add("escape-byte-sq", [X("s = '\\" + chr(b) + "'\n")], flagsets=(0,))
        return shapes

    def strategy(self, tier):
        names = sorted(HAND.keys())

        @st.composite
        def case(draw):
            sc = draw(st.sampled_from(names))
            fl = draw(st.sampled_from([0, 0, F_COMMENTS, F_IGNORE_UNKNOWN, F_NOCASE, F_COMMENTS | F_IGNORE_UNKNOWN,
                                       F_COMMENTS | F_NOCASE | F_IGNORE_UNKNOWN]))
            toks = draw(gen_text.text_tokens(HAND[sc], fl, max_items=6, bad_p=0.08))
            # sprinkle comments
            if draw(st.booleans()):
                pos = draw(st.lists(st.integers(0, max(0, len(toks))), max_size=3))
                for p in sorted(pos, reverse=True):
                    body = draw(st.sampled_from(["", " c", "x", " * ", "#", " a */ b"]))
                    style = draw(st.sampled_from(["hash", "slash", "block"]))
                    if style == "block" and "*/" in body:
                        body = " b "
                    toks.insert(p, ["c", body, style])
            text = gen_text.render(toks)
            nm = draw(st.integers(0, 6))
            for _ in range(nm):
                op = draw(st.sampled_from(["ins", "del", "flip", "trunc", "splice", "dupslice"]))
                if not text and op != "ins":
                    continue
                i = draw(st.integers(0, max(0, len(text) - 1))) if text else 0
                if op == "ins":
                    b = draw(st.sampled_from(list("\"'\\{}()=+,#/*$\n\r\t ") + [chr(1), chr(255), "\\\n", "${", "/*", "*/", "//"]))
                    text = text[:i] + b + text[i:]
                elif op == "del":
                    text = text[:i] + text[i + 1:]
                elif op == "flip":
                    text = text[:i] + chr((ord(text[i]) ^ (1 << draw(st.integers(0, 7)))) or 1) + text[i + 1:]
                elif op == "trunc":
                    text = text[:i]
                elif op == "splice":
                    j = draw(st.integers(0, len(text)))
                    text = text[:i] + text[j:]
                else:
                    j = draw(st.integers(i, min(len(text), i + 20)))
                    text = text[:j] + text[i:j] + text[j:]
            text = text.replace("\x00", "\x01")
            via = draw(st.sampled_from(["buf", "buf", "fp", "file"]))
            return {"schema": sc, "flags": fl, "via": via, "text": [["x", text]], "sp": draw(st.integers(0, 3)) == 0}
        return case()

    def memcheck_cases(self, n):
        """thorough only: a sample of the directed shapes on the uninstrumented build under valgrind memcheck (sees reads of
        uninitialised memory, which ASan does not)"""
        allq = self.directed("quick")
        shapes = [c for c in allq if text_len(c["text"]) < 2000]
        shapes = shapes[::max(1, len(shapes) // n)][:n]
        return [dict(c, memcheck=True) for c in shapes]

    def check_memcheck(self, case):
        import subprocess
        import build as buildmod
        d = buildmod.build(("plain",))
        exe = os.path.join(d, "plain", "cfgx")
        fx = fixture_dir()
        s = Script()
        emit_schema(s, 0, HAND[case["schema"]])
        s.add("cwd", hx(fx))
        s.add("init", 1, 0, case["flags"])
        s.add("parse_buf", 1, text_arg(case["text"]))
        s.add("dump", 1)
        s.add("print", 1)
        s.add("parse_buf", 1, hx("i = 1\n"))
        s.add("free", 1)
        try:
            p = subprocess.run(["valgrind", "-q", "--error-exitcode=97", exe], input=s.text().encode("latin-1"),
                               stdout=subprocess.DEVNULL, stderr=subprocess.PIPE, timeout=600)
        except (OSError, subprocess.TimeoutExpired):
            return Outcome(classes=["memcheck-inconclusive"])
        err = p.stderr.decode("latin-1", "replace")
        fail = None
        if p.returncode == 97:
            first = [ln for ln in err.split("\n") if "==" in ln][:1]
            fail = Failure("memcheck/%s" % (first[0].split("== ")[-1][:50] if first else "error"),
                           "valgrind memcheck reports an error for shape %s:\n%s" % (case.get("shape"), err[:2500]))
        return Outcome(classes=["memcheck"], nontrivial=True, failure=fail, sample={"shape": case.get("shape"), "memcheck": True})

    def run(self, r):
        if r.tier == "thorough":
            r.run_cases(self.memcheck_cases(400), chunksize=4)
        r.run_cases(self.directed(r.tier), chunksize=8)
        r.run_hypothesis(30000 if r.tier == "quick" else 600000)
        import fuzzdrv
        fuzzdrv.run_fuzz(r, "fuzz_parse", "C02", secs=45 if r.tier == "quick" else 900, empty_corpus_too=(r.tier == "thorough"))


PROP = C02()

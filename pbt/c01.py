"""C01 — parsed configuration equals the reference meaning of the text."""
import itertools

from hypothesis import strategies as st

import gen_text
from execclient import Script, hx, by_index
from model_lang import Model, compare, dump_to_plain
from runner import Failure, Outcome, h64
from schema import (HAND, emit_schema, schemas, walk, F_COMMENTS, F_IGNORE_UNKNOWN, F_NOCASE, F_MULTI, F_TITLE, F_LIST,
                    F_KEYSTRVAL, F_NODEFAULT, F_NO_TITLE_DUPES, F_DEPRECATED, F_DROP, F_SIMPLE, o_int, o_list, o_sec, o_func, o_str)

# fixed schemas for the exhaustive token-sequence pass
EX_SCHEMAS = {
    "ex1": [o_int("i", 5), o_list("int", "l", "{10, 20}"), o_sec("s", [o_int("i", 7)]),
            o_sec("m", [o_int("i", 7), o_list("int", "l", "{1}")], F_MULTI | F_TITLE), o_func("f")],
    "ex2": [o_int("i", 5, F_NODEFAULT), o_list("int", "l", None), o_sec("s", [o_int("i", 7)], F_NODEFAULT),
            o_sec("m", [o_int("i", 7)], F_MULTI | F_TITLE | F_NO_TITLE_DUPES), o_func("f")],
    "ex3": [o_int("i", 5, F_DEPRECATED | F_DROP), o_list("int", "l", "{10, 20}", F_DEPRECATED), o_sec("s", [], F_KEYSTRVAL),
            o_sec("m", [o_int("i", 7)], F_MULTI), o_func("f")],
}
HAND.update(EX_SCHEMAS)
EX_ALPHA = [["s", "i", "bare"], ["s", "l", "bare"], ["s", "s", "bare"], ["s", "m", "bare"], ["s", "f", "bare"], ["s", "u", "bare"],
            ["s", "1", "bare"], ["p", "="], ["p", "+="], ["p", "{"], ["p", "}"], ["p", "("], ["p", ")"], ["p", ","]]


class C01:
    id = "C01"
    level = "exploration"
    variants = ("fast", "asan")
    rule = ("(a) all token sequences up to length 5 (quick) / 6 (thorough) over a 14-token alphabet (five declared names, "
            "an unknown name, a value, = += { } ( ) ,) against three fixed schemas x {no flags, IGNORE_UNKNOWN}, which "
            "visits every (parser state, token) pair; (b) Hypothesis: random schemas (all option kinds and flags incl. top-level CFG_SIMPLE_* options, depth <= 3) "
            "or hand-built ones x context flags x sequences of 1-4 grammar-derived texts with 0-3 token mutations, parsed "
            "into the same context. Oracle: language model decides accept/reject and the full tree after each accepted "
            "text. Non-trivial = accepted text changing >= 2 options, or a rejected text whose offending token is not the "
            "first; distinct = distinct case hashes")
    assumptions = [
        "grey zone: names containing '|' or '=', malformed unknown items under IGNORE_UNKNOWN, TITLE without MULTI (title not "
        "compared), grey numerals, unterminated \"... or /*... at end of text",
        "exhaustive token-sequence pass runs batched on the UBSan-only build; disagreements are re-run alone on ASan",
    ]

    def build(self, case):
        schema = HAND[case["schema"]] if isinstance(case["schema"], str) else case["schema"]
        s = Script()
        emit_schema(s, 0, schema)
        s.add("init", 1, 0, case["flags"])
        marks = []
        for toks in case["texts"]:
            text = gen_text.render(toks)
            ip = s.add("parse_buf", 1, hx(text))
            idd = s.add("dump", 1)
            marks.append((text, ip, idd))
        s.add("free", 1)
        return schema, s, marks

    def judge(self, schema, flags, marks, t):
        """returns (sig, msg, info)"""
        m = Model(schema, flags)
        info = {"accepted": 0, "rejected_late": 0, "changed2": 0}
        for n, (text, ip, idd) in enumerate(marks):
            if ip not in t:
                return "no-result", "executor died before text %d" % n, info
            before = snapshot(m.root)
            exp = m.parse(text)
            rc = t[ip]["rc"]
            if exp.get("grey") and not exp.get("grey_only_numerals"):
                return None, None, info
            if exp.get("grey"):
                # only numerals whose acceptance the statement leaves open (a sign before a radix prefix, an explicit
                # plus, leading blanks): rejecting is fine, but if the text is accepted the values are decided
                if rc != 0:
                    return None, None, info
            if exp["accept"] != (rc == 0):
                kind = "accepted-invalid" if rc == 0 else "rejected-valid"
                why = exp.get("why") or ""
                return ("verdict/%s/%s" % (kind, why.split(" ")[0] + "-" + why.split(" ")[-1] if why else "x"),
                        "text %d %r: model %s (%s), parse returned %d diag=%r" %
                        (n, text, "accepts" if exp["accept"] else "rejects", why, rc, t[ip].get("diag")), info)
            if rc != 0:
                tok = exp.get("tok")
                if tok is not None and tok.start > 0:
                    info["rejected_late"] += 1
                return None, None, info       # the state after a rejected parse is not defined by C01
            info["accepted"] += 1
            d = compare(m.root, dump_to_plain(t[idd]["tree"]))
            if d:
                return "tree/%s" % classify_diff(d), "after text %d %r: %s" % (n, text, d), info
            if changed(before, snapshot(m.root)) >= 2:
                info["changed2"] += 1
        return None, None, info

    def check_case(self, case, get_ex):
        if "batch" in case:
            return self.check_batch(case, get_ex)
        schema, s, marks = self.build(case)
        r = get_ex("asan").run(s)
        t = by_index(r.trace)
        sig, msg, info = self.judge(schema, case["flags"], marks, t)
        if not r.clean and sig is None:
            sig, msg = "die/%s" % r.death(), "child died: %s\n%s" % (r.death(), r.stderr.decode("latin-1")[:1500])
        elif sig == "no-result":
            sig, msg = "die/%s" % r.death(), "child died: %s\n%s" % (r.death(), r.stderr.decode("latin-1")[:1500])
        classes = self.classes(schema, case, info)
        nt = info["changed2"] > 0 or info["rejected_late"] > 0
        return Outcome(classes=classes, nontrivial=nt, failure=Failure(sig, msg) if sig else None,
                       sample={"flags": case["flags"], "texts": [m[0][:200] for m in marks][:3],
                               "schema": case["schema"] if isinstance(case["schema"], str) else [o["n"] + ":" + o["k"] for o in schema]})

    @staticmethod
    def classes(schema, case, info):
        c = []
        txt = " ".join(gen_text.render(t) for t in case["texts"])
        if "+=" in txt:
            c.append("append")
        if len(case["texts"]) > 1:
            c.append("multi-text")
        if case["flags"] & F_NOCASE:
            c.append("nocase")
        if case["flags"] & F_IGNORE_UNKNOWN:
            c.append("ignore-unknown")
        fl = 0
        for _, o in walk(schema):
            fl |= o["f"]
            if o["k"] == "sec" and (o["f"] & F_KEYSTRVAL):
                fl |= F_KEYSTRVAL
        for bit, nm in ((F_DEPRECATED, "deprecated"), (F_DROP, "drop"), (F_KEYSTRVAL, "keystrval"), (F_NODEFAULT, "nodefault"),
                        (F_NO_TITLE_DUPES, "unique-titles"), (F_TITLE, "titles"), (F_MULTI, "multi"), (F_SIMPLE, "simple-option")):
            if fl & bit:
                c.append(nm)
        if info["accepted"]:
            c.append("accepted")
        if info["rejected_late"]:
            c.append("rejected-late")
        return c

    # batched exhaustive pass -------------------------------------------------------------
    def check_batch(self, case, get_ex):
        schema = HAND[case["schema"]]
        flags = case["flags"]
        seqs = case["batch"]
        single = len(seqs) == 1
        s = Script()
        emit_schema(s, 0, schema)
        marks = []
        for seq in seqs:
            text = gen_text.render(seq)
            s.add("newcase")
            s.add("init", 1, 0, flags)
            ip = s.add("parse_buf", 1, hx(text))
            idd = s.add("dump", 1)
            marks.append((text, ip, idd))
        s.add("newcase")
        r = get_ex("asan" if single else "fast").run(s, cpu=30, wall=120)
        t = by_index(r.trace)
        fails, keys, cc = [], [], {}
        crashed = False
        for seq, mk in zip(seqs, marks):
            sig, msg, info = self.judge(schema, flags, [mk], t)
            if info["accepted"]:
                cc["accepted"] = cc.get("accepted", 0) + 1
            if info["changed2"] or info["rejected_late"]:
                keys.append(h64([case["schema"], flags, mk[0]]))
            if sig is None:
                continue
            if sig == "no-result" and not single:
                if crashed:
                    continue
                crashed = True
            if not single:
                sub = {"schema": case["schema"], "flags": flags, "batch": [seq]}
                o1 = self.check_batch(sub, get_ex)
                if o1.failure:
                    fails.append(o1.failure)
            else:
                if sig == "no-result":
                    sig, msg = "die/%s" % r.death(), r.stderr.decode("latin-1")[:1500]
                fails.append(Failure(sig, msg, {"schema": case["schema"], "flags": flags, "batch": [seq]}))
        return Outcome(count=len(seqs), keys=keys, class_counts=cc, nontrivial=bool(keys), failure=fails[0] if fails else None,
                       failures=fails[1:8], classes=["exhaustive-seq"], sample={"schema": case["schema"], "flags": flags, "text": marks[len(marks) // 2][0]})

    def exhaustive_cases(self, L):
        cases = []
        B = 500
        for name in EX_SCHEMAS:
            for flags in (0, F_IGNORE_UNKNOWN):
                buf = []
                for n in range(0, L + 1):
                    for tup in itertools.product(EX_ALPHA, repeat=n):
                        buf.append([list(x) for x in tup])
                        if len(buf) == B:
                            cases.append({"schema": name, "flags": flags, "batch": buf})
                            buf = []
                if buf:
                    cases.append({"schema": name, "flags": flags, "batch": buf})
        return cases

    def strategy(self, tier):
        hand = ["basic", "sections", "keyval", "deprecated", "nodefault", "names", "ptrs", "tutorial", "ex1", "ex2", "ex3"]
        COMMENT_BODIES = [" note", "", "x", "* doc ", " a * b ", " 2*3 ", "*", "**", " x **", " * ", "\n * boxed\n * lines\n ", " / * / ", " /* nested opener ",
                          " \"quoted\" 'q' ", " # // ", " = { } ( ) , += ", " ${HOME} ", "*a*b*c*", " ** ** ", " a *\n* b "]

        @st.composite
        def case(draw):
            flags = draw(st.sampled_from([0, 0, F_NOCASE, F_IGNORE_UNKNOWN, F_COMMENTS, F_NOCASE | F_IGNORE_UNKNOWN]))
            if draw(st.integers(0, 3)) == 0:
                sc = draw(st.sampled_from(hand))
                opts = HAND[sc]
            else:
                opts = draw(schemas(nocase=bool(flags & F_NOCASE), allow_func=True, allow_single_title=True, allow_simple=True))
                sc = opts
            nt = draw(st.integers(1, 4))
            texts = []
            for _ in range(nt):
                toks = draw(gen_text.text_tokens(opts, flags, max_items=6, bad_p=0.02))
                if draw(st.integers(0, 2)) == 0:
                    toks = draw(gen_text.mutate_tokens(toks, 3))
                # comments of every style between any two tokens (bodies with stars, slashes, quotes, markers of the other styles)
                if draw(st.integers(0, 2)) == 0:
                    for _ in range(draw(st.integers(1, 3))):
                        style = draw(st.sampled_from(["hash", "slash", "block", "block"]))
                        body = draw(st.sampled_from(COMMENT_BODIES))
                        if style != "block":
                            body = body.replace("\n", " ")
                        toks = list(toks)
                        toks.insert(draw(st.integers(0, len(toks))), ["c", body, style])
                texts.append(toks)
            return {"schema": sc, "flags": flags, "texts": texts}
        return case()

    # every clause of the statement on a hand-built schema, under each context flag (fixed texts: not left to chance)
    CLAUSES = [
        "tm a { x = 1 }\ntm A { x = 2 }\ntm a { }\n", "tu t { }\ntu T { x = 3 }\n", "tu t { }\ntu t { }\n", "tm a { }\ntm b { x = 2 }\ntm a { x = 3 }\n",
        "single { x = 1 }\nSINGLE { x = 2 }\nsingle { }\n", "multi { x = 1 }\nmulti { }\nMulti { x = 3 }\n", "I = 3\ni = 4\n", "nd { }\nnd { x = 2 }\n",
        "ts t1 { x = 1 }\nts t2 { }\n", "nest { d = 2 deeper a { e = 3 } deeper A { } deeper a { el += z } }\n", "mnest { deeper z { } }\nmnest { deeper z { e = 1 } deeper Z { } }\n",
        "single { zl = {} zl += 3 }\nsingle { zl += 4 }\n", "multi { zl += 9 }\nmulti { zl = {7} zl += 8 }\n", "i = 1\ni = 2\nunknown_name = 3\n",
        "tm \"\" { }\ntm '' { x = 2 }\n", "tm 1 { }\ntm 01 { }\n",
    ]

    def run(self, r):
        r.run_cases([{"schema": "sections", "flags": f, "texts": [[["raw", t]]]} for f in (0, F_NOCASE, F_IGNORE_UNKNOWN, F_NOCASE | F_IGNORE_UNKNOWN)
                     for t in self.CLAUSES] +
                    [{"schema": "sections", "flags": f, "texts": [[["raw", a]], [["raw", b]]]} for f in (0, F_NOCASE)
                     for a in self.CLAUSES[:6] for b in self.CLAUSES[:6]], chunksize=8)
        r.run_cases(self.exhaustive_cases(5 if r.tier == "quick" else 6), chunksize=2)
        r.exhaustive = True
        r.run_hypothesis(16000 if r.tier == "quick" else 1500000)


def snapshot(sec):
    out = []
    for o in sec.opts:
        if o.kind == "sec":
            out.append((o.d["n"], tuple(snapshot(s) for s in o.vals)))
        else:
            out.append((o.d["n"], tuple(repr(v) for v in o.vals)))
    return tuple(out)


def changed(a, b):
    n = 0
    for x, y in zip(a, b):
        if x != y:
            n += 1
    return n + abs(len(a) - len(b))


def classify_diff(d):
    import re
    m = re.search(r": (.*)", d)
    body = m.group(1) if m else d
    if "values in model" in body:
        return "count"
    if "title" in body:
        return "title"
    if "options in model" in body:
        return "options"
    return "value"


PROP = C01()

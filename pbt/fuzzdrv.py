"""libFuzzer campaigns: build, run N jobs for a time budget, confirm artifacts, fold statistics into the evidence."""
import glob
import os
import re
import shutil
import subprocess
import sys

import build as buildmod
from runner import Failure, VERIF, NWORKERS

SEED_TEXTS = [
    "i = 3\nil += {30}\ntm a { x = 9 }\nfn(q, \"r s\")\ns = \"a\\x41b\"\n",
    "single { x = 1 zl = {1,2,} }\nmulti { }\nmulti { y = 'q' }\ntu t { }\nnest { deeper a { e = 1 } }\n",
    "include(inc_ok.conf)\nsec { include(inc_deep0.conf) g(a, b) }\n",
    "p = v\npl = {a, b}\nsec t { q = 1 ql = {x} }\nsec t { }\n",
    "kv { a = 1 b = \"two\" }\nkvm t { known = x other = y }\n",
    "old = 3\ngone = 4\noldl = {b}\nlast = q\n",
    "# c\n// d\n/* e\n f */ i = 1\ns = ${HOME}\nsn = \"${NOPE:-dflt}\"\n",
    "unk { a = 1 b { c = {1,2} } }\nunk2 += {1}\nunk3(a, b)\ni = 4\n",
    "i = 7\nf = 2.25\nb = yes\ns = \"q\\\"uote \\\\ back\"\nil = {}\nsl += {\"x y\", 'z'}\ntm \"t 1\" { x = 1 deep d { z = \"a\\nb\" } }\nmulti { }\nkv { k = v }\n",
]


def env_for(work):
    e = dict(os.environ)
    e["ASAN_OPTIONS"] = "detect_leaks=0:abort_on_error=1:allocator_may_return_null=1:symbolize=1"
    e["UBSAN_OPTIONS"] = "print_stacktrace=1:halt_on_error=1"
    e["VT_FUZZ_WORK"] = work
    return e


def replay_artifact(exe, path, work, timeout=100):
    """returns (failed: bool, output)"""
    try:
        r = subprocess.run([exe, "-timeout=%d" % timeout, "-rss_limit_mb=4096", path], env=env_for(work), cwd=work,
                           stdout=subprocess.PIPE, stderr=subprocess.STDOUT, timeout=timeout * 3)
    except subprocess.TimeoutExpired:
        return True, "timeout on replay"
    return r.returncode != 0, r.stdout.decode("latin-1", "replace")


def run_fuzz(r, target, pid, secs, empty_corpus_too=False, prefix=True):
    if os.environ.get("VERIF_STOP_ON_FIRST") and (r.stats.failures or r.violations):
        return
    d = buildmod.build(("fuzz",))
    exe = os.path.join(d, "fuzz", target)
    if not os.path.exists(exe):
        r.stats.notes.append("fuzz target %s not built" % target)
        return
    work = os.path.join(r.workdir, "fuzz")
    runs = [("seeded", True)] + ([("empty", False)] if empty_corpus_too else [])
    for tag, seeded in runs:
        wd = os.path.join(work, tag)
        corpus = os.path.join(wd, "corpus")
        art = os.path.join(wd, "art")
        os.makedirs(corpus, exist_ok=True)
        os.makedirs(art, exist_ok=True)
        if seeded:
            n = 0
            for pat in ("/repo/tests/*.conf", "/repo/examples/*.conf"):
                for f in glob.glob(pat):
                    data = open(f, "rb").read()
                    for sc in range(8):
                        open(os.path.join(corpus, "seed%d_%d" % (n, sc)), "wb").write((bytes([sc, (n * 7 + sc) & 31]) if prefix else b"") + data)
                    n += 1
            for i, t in enumerate(SEED_TEXTS):
                for fl in (0, 2, 4, 7, 8, 16):
                    open(os.path.join(corpus, "t%d_%d" % (i, fl)), "wb").write((bytes([i % 8, fl]) if prefix else b"") + t.encode("latin-1"))
        else:
            open(os.path.join(corpus, "empty"), "wb").write(b"\x00\x00")
        seed = (r.seed % 100000) + 1
        cmd = [exe, "-jobs=%d" % NWORKERS, "-workers=%d" % NWORKERS, "-max_total_time=%d" % secs, "-timeout=10",
               "-rss_limit_mb=3000", "-max_len=4096", "-seed=%d" % seed, "-dict=%s" % os.path.join(VERIF, "fuzz", "tokens.dict"),
               "-artifact_prefix=%s/" % art, "-print_final_stats=1", "-detect_leaks=0", corpus]
        try:
            subprocess.run(cmd, env=env_for(wd), cwd=wd, stdout=subprocess.DEVNULL, stderr=subprocess.DEVNULL, timeout=secs + 300)
        except subprocess.TimeoutExpired:
            r.stats.notes.append("fuzz %s: driver timeout (budget exhausted, inconclusive)" % tag)
        execs = 0
        cov = 0
        for lg in glob.glob(os.path.join(wd, "**", "fuzz-*.log"), recursive=True):
            txt = open(lg, errors="replace").read()
            m = re.findall(r"stat::number_of_executed_units:\s+(\d+)", txt)
            if m:
                execs += int(m[-1])
            else:
                m2 = re.findall(r"#(\d+)\s+(?:NEW|REDUCE|pulse|RELOAD|DONE)", txt)
                if m2:
                    execs += int(m2[-1])
            c = re.findall(r"cov: (\d+)", txt)
            if c:
                cov = max(cov, int(c[-1]))
        r.stats.extra["fuzz_%s_execs" % tag] = execs
        r.stats.extra["fuzz_%s_cov_edges" % tag] = cov
        r.stats.extra["fuzz_%s_corpus" % tag] = len(os.listdir(corpus))
        r.stats.evals += execs
        # a sample of corpus units counts towards the distinct non-trivial set (structural bytes >= 2)
        for name in os.listdir(corpus):
            data = open(os.path.join(corpus, name), "rb").read()
            if sum(1 for ch in b"={}(),\"'#\\$" if ch in data) >= 2:
                r.stats.nontrivial.add(hash(data) & 0xFFFFFFFFFFFFFFFF)
        if "fuzz" not in r.stats.samples:
            names = sorted(os.listdir(corpus))[-3:]
            r.stats.samples["fuzz"] = [open(os.path.join(corpus, n), "rb").read()[:200].decode("latin-1") for n in names]
        noise = 0
        for a in sorted(os.listdir(art)):
            p = os.path.join(art, a)
            if a.startswith(("slow-unit", "oom")):
                noise += 1
                continue
            fails = 0
            out = ""
            for _ in range(3):
                f, out = replay_artifact(exe, p, wd)
                fails += f
            if fails < 3:
                r.stats.extra["fuzz_flaky_artifacts"] += 1
                continue
            m = re.search(r"(VT-ORACLE: .*|AddressSanitizer: [\w-]+|runtime error: .*|ERROR: libFuzzer: [\w -]+)", out)
            what = m.group(1) if m else "fuzz target failed"
            fr = re.findall(r"#\d+ 0x[0-9a-f]+ in (cfg_\w+|q\w+|trim_\w+|call_function|parse_title) ", out)
            sig = "fuzz/%s/%s" % (what[:60], fr[0] if fr else "?")
            if any(v[0].sig == sig for v in r.violations):
                r.stats.extra["further_failures_same_signature"] += 1      # one artifact per signature is kept and reported
                continue
            keep = os.path.join(os.environ.get("VERIF_REPLAY_DIR") or os.path.join(VERIF, "replays"), pid)
            os.makedirs(keep, exist_ok=True)
            dst = os.path.join(keep, "fuzz-" + a)
            shutil.copy(p, dst)
            r.violations.append((Failure("fuzz/%s/%s" % (what[:60], fr[0] if fr else "?"), out[-2500:], {"fuzz_artifact": dst}), dst))
        r.stats.extra["fuzz_noise_artifacts"] += noise
        shutil.rmtree(wd, ignore_errors=True)


def replay_file(target, path):
    d = buildmod.build(("fuzz",))
    exe = os.path.join(d, "fuzz", target)
    work = os.path.join(VERIF, "work", "fuzzreplay%d" % os.getpid())
    os.makedirs(work, exist_ok=True)
    try:
        failed, out = replay_artifact(exe, path, work)
    finally:
        shutil.rmtree(work, ignore_errors=True)
    return failed, out

def run_fuzz(r, target, pid, secs):
    r.stats.notes.append("fuzz driver not built yet")

"""Option schemas: JSON-able description, emission into a case script, hand-built pool, generators."""
from execclient import hx

F_MULTI = 1
F_LIST = 2
F_NOCASE = 4
F_TITLE = 8
F_NODEFAULT = 16
F_NO_TITLE_DUPES = 32
F_RESET = 64
F_DEFINIT = 128
F_IGNORE_UNKNOWN = 256
F_DEPRECATED = 512
F_DROP = 1024
F_COMMENTS = 2048
F_MODIFIED = 4096
F_KEYSTRVAL = 8192
F_SIMPLE = 1 << 24      # not a library flag: asks the executor for a CFG_SIMPLE_* option (value in an application variable)

CB_PARSE = 1
CB_VALID = 2
CB_VALID2 = 4
CB_PRINT = 8
CB_FREE = 16
CB_COMMENT = 32

T_INT, T_FLOAT, T_BOOL, T_STR, T_SEC, T_FUNC, T_PTR = 1, 2, 4, 3, 5, 6, 7   # cfg_type_t values
# enum cfg_type_t { NONE=0, INT=1, FLOAT=2, STR=3, BOOL=4, SEC=5, FUNC=6, PTR=7, COMMENT=8 }
KIND_TYPE = {"int": 1, "float": 2, "str": 3, "bool": 4, "sec": 5, "func": 6, "ptr": 7}
KIND_LETTER = {"int": "i", "float": "f", "bool": "b", "str": "s", "ptr": "p", "func": "F"}


def o_int(n, d=0, f=0, cb=0):
    return {"k": "int", "n": n, "f": f, "d": d, "cb": cb}


def o_float(n, d="0.0", f=0, cb=0):
    return {"k": "float", "n": n, "f": f, "d": d, "cb": cb}


def o_bool(n, d=0, f=0, cb=0):
    return {"k": "bool", "n": n, "f": f, "d": d, "cb": cb}


def o_str(n, d=None, f=0, cb=0):
    return {"k": "str", "n": n, "f": f, "d": d, "cb": cb}


def o_simple(kind, n, d):
    """CFG_SIMPLE_INT/FLOAT/BOOL/STR: d is the value the application put into its variable before cfg_init"""
    return {"k": kind, "n": n, "f": F_SIMPLE, "d": d, "cb": 0}


def o_list(kind, n, d=None, f=0, cb=0):
    return {"k": kind, "n": n, "f": f | F_LIST, "d": d, "cb": cb}


def o_sec(n, sub, f=0, cb=0):
    return {"k": "sec", "n": n, "f": f, "sub": sub, "cb": cb}


def o_func(n, which="log"):
    return {"k": "func", "n": n, "f": 0, "d": which, "cb": 0}


def o_ptr(n, f=0, free=True):
    return {"k": "ptr", "n": n, "f": f, "d": None, "cb": CB_PARSE | (CB_FREE if free else 0)}


def emit_opts(s, opts):
    for o in opts:
        if o["k"] == "sec":
            has = o.get("sub") is not None
            s.add("S", o["f"], hx(o["n"]), o.get("cb", 0), 1 if has else 0)
            if has:
                emit_opts(s, o["sub"])
                s.add("e")
        else:
            d = o.get("d")
            if o["k"] == "func":
                darg = "1" if d == "include" else "2" if d == "nest" else "3" if d == "nestfree" else "4" if d == "adddir" else "0"
            elif o["f"] & F_LIST or o["k"] in ("str", "ptr"):
                darg = hx(d)
            else:
                darg = hx(str(d))
            s.add("o", KIND_LETTER[o["k"]], o["f"], hx(o["n"]), darg, o.get("cb", 0))


def emit_schema(s, sid, opts):
    s.add("schema", sid)
    emit_opts(s, opts)
    s.add("end")


# ---------------------------------------------------------------------------------------------
# hand-built pool (every option kind, every schema flag, include and user functions, pointer options)
def hand_schemas():
    inner = [o_int("x", 7), o_str("y", "why"), o_list("int", "zl", "{1, 2}")]
    deep = [o_int("d", 1), o_sec("deeper", [o_int("e", 2), o_list("str", "el", None)], F_MULTI | F_TITLE)]
    S = {}
    S["basic"] = [
        o_int("i", 5), o_float("f", "1.5"), o_bool("b", 0), o_str("s", "dflt"), o_str("sn", None),
        o_list("int", "il", "{10, 20}"), o_list("float", "fl", None), o_list("bool", "bl", "{true}"),
        o_list("str", "sl", "{\"a\", b}"), o_list("str", "se", ""),
    ]
    S["sections"] = [
        o_int("i", 5),
        o_sec("single", inner), o_sec("multi", inner, F_MULTI), o_sec("tm", inner, F_MULTI | F_TITLE),
        o_sec("tu", inner, F_MULTI | F_TITLE | F_NO_TITLE_DUPES), o_sec("nd", inner, F_NODEFAULT),
        o_sec("ts", inner, F_TITLE), o_sec("nest", deep), o_sec("mnest", deep, F_MULTI),
    ]
    S["funcs"] = [o_int("i", 5), o_func("fn"), o_func("include", "include"), o_list("str", "sl", None),
                  o_sec("sec", [o_int("x", 1), o_func("include", "include"), o_func("g")], F_MULTI)]
    S["ptrs"] = [o_int("i", 5), o_ptr("p"), o_ptr("pl", F_LIST), o_ptr("pn", 0, False), dict(o_ptr("pd"), d="pdef"), dict(o_ptr("pdl", F_LIST), d="{x, y}"),
                 o_sec("sec", [o_ptr("q"), o_ptr("ql", F_LIST)], F_MULTI | F_TITLE)]
    S["keyval"] = [o_int("i", 5), o_sec("kv", [], F_KEYSTRVAL), o_sec("kvn", None, F_KEYSTRVAL),
                   o_sec("kvm", [o_str("known", "k")], F_KEYSTRVAL | F_MULTI | F_TITLE)]
    S["deprecated"] = [o_int("i", 5), o_int("old", 1, F_DEPRECATED), o_int("gone", 2, F_DEPRECATED | F_DROP),
                       o_list("str", "oldl", "{a}", F_DEPRECATED), o_list("int", "gonel", "{1}", F_DEPRECATED | F_DROP),
                       o_str("last", "z", F_DEPRECATED | F_DROP)]
    S["nodefault"] = [o_int("i", 5), o_int("ni", 0, F_NODEFAULT), o_str("ns", None, F_NODEFAULT),
                      o_list("int", "nl", "{1}", F_NODEFAULT), o_float("nf", "0", F_NODEFAULT), o_bool("nb", 0, F_NODEFAULT)]
    S["callbacks"] = [o_int("i", 5), o_int("pi", 0, F_NODEFAULT, CB_PARSE), o_str("ps", None, F_NODEFAULT, CB_PARSE),
                      o_list("int", "pil", None, 0, CB_PARSE | CB_VALID), o_int("vi", 1, 0, CB_VALID),
                      o_list("str", "vsl", None, 0, CB_VALID), o_float("pf", "0", F_NODEFAULT, CB_PARSE),
                      o_bool("pb", 0, F_NODEFAULT, CB_PARSE), o_sec("vs", [o_int("x", 1, 0, CB_VALID)], F_MULTI, CB_VALID)]
    S["names"] = [o_int("i", 5), o_int("A", 1), o_int("a-b", 2), o_int("x_1", 3), o_str("Opt", "o"),
                  o_sec("root", [o_int("i", 1)], F_MULTI | F_TITLE), o_sec("Sec", [o_int("I", 1)], F_MULTI)]
    S["mixed"] = S["basic"] + [o_sec("tm", inner, F_MULTI | F_TITLE), o_sec("single", inner), o_func("fn"),
                               o_func("include", "include"), o_ptr("p"), o_sec("kv", [], F_KEYSTRVAL)]
    S["empty"] = []
    S["tutorial"] = [
        o_list("str", "targets", "{\"Life\", \"Universe\", \"Everything\"}"), o_int("repeat", 1),
        o_sec("greeting", [o_list("str", "targets", "{\"World\"}"), o_int("repeat", 3)], F_TITLE | F_MULTI),
        o_func("include", "include"),
    ]
    return S


HAND = hand_schemas()


def walk(opts, prefix=()):
    """yield (path tuple of names, option)"""
    for o in opts or []:
        yield prefix + (o["n"],), o
        if o["k"] == "sec" and o.get("sub"):
            yield from walk(o["sub"], prefix + (o["n"],))


# ---------------------------------------------------------------------------------------------
# random schemas (Hypothesis)
from hypothesis import strategies as st  # noqa: E402

NAME_POOL = ["a", "A", "b", "opt", "Opt", "x-y", "x_1", "root", "include", "s", "il", "tm", "k.1", "zeta", "B"]


def _parsed_default(kind, draw):
    n = draw(st.integers(0, 3))
    if n == 0:
        return draw(st.sampled_from([None, "", "{}"]))
    pool = {"int": ["1", "20", "-3", "0x10"], "float": ["1.5", "2", "-0.25"], "bool": ["true", "no", "on"],
            "str": ["a", "\"b c\"", "'d'", "e"]}[kind]
    return "{" + ", ".join(draw(st.sampled_from(pool)) for _ in range(n)) + "}"


@st.composite
def schemas(draw, depth=0, max_depth=3, nocase=False, allow_func=True, allow_ptr=True, allow_deprecated=True,
            allow_keystrval=True, allow_single_title=True, cb_parse=False, allow_simple=False):
    n = draw(st.integers(1, 6 if depth == 0 else 4))
    names = draw(st.lists(st.sampled_from(NAME_POOL), min_size=n, max_size=n,
                          unique_by=(lambda x: x.lower()) if nocase else (lambda x: x)))
    opts = []
    for name in names:
        kinds = ["int", "float", "bool", "str", "ilist", "flist", "blist", "slist", "int", "str"]
        if depth < max_depth:
            kinds += ["sec", "sec", "sec"]
        if allow_func:
            kinds.append("func")
        if allow_ptr:
            kinds += ["ptr", "plist"]
        k = draw(st.sampled_from(kinds))
        fl = 0
        if k in ("int", "float", "bool", "str", "ilist", "flist", "blist", "slist") and allow_deprecated and draw(st.integers(0, 9)) == 0:
            fl |= F_DEPRECATED | (F_DROP if draw(st.booleans()) else 0)
        if k in ("int", "float", "bool", "str") and draw(st.integers(0, 5)) == 0:
            fl |= F_NODEFAULT
        if allow_simple and depth == 0 and k in ("int", "float", "bool", "str") and draw(st.integers(0, 2)) == 0:
            dv = {"int": [0, 5, -7], "float": ["0.0", "1.5", "-2.25"], "bool": [0, 1], "str": [None, "dflt", "", "two words"]}[k]
            opts.append(o_simple(k, name, draw(st.sampled_from(dv))))
            continue
        if k == "int":
            opts.append(o_int(name, draw(st.sampled_from([0, 5, -7, 1000000])), fl))
        elif k == "float":
            opts.append(o_float(name, draw(st.sampled_from(["0.0", "1.5", "-2.25", "1e3"])), fl))
        elif k == "bool":
            opts.append(o_bool(name, draw(st.integers(0, 1)), fl))
        elif k == "str":
            opts.append(o_str(name, draw(st.sampled_from([None, "dflt", "", "two words", "q\"uote"])), fl))
        elif k in ("ilist", "flist", "blist", "slist"):
            kk = {"i": "int", "f": "float", "b": "bool", "s": "str"}[k[0]]
            if draw(st.integers(0, 7)) == 0:
                fl |= F_NODEFAULT
            opts.append(o_list(kk, name, _parsed_default(kk, draw), fl))
        elif k == "func":
            opts.append(o_func(name))
        elif k == "ptr":
            # a textual default is run through the parse callback when the option (or its section instance) is created
            opts.append(dict(o_ptr(name), d=draw(st.sampled_from([None, None, "pdflt", "\"two words\""]))))
        elif k == "plist":
            opts.append(dict(o_ptr(name, F_LIST), d=draw(st.sampled_from([None, None, "{x, y}", "{}"]))))
        else:
            sf = draw(st.sampled_from([0, 0, F_MULTI, F_MULTI | F_TITLE, F_MULTI | F_TITLE, F_MULTI | F_TITLE | F_NO_TITLE_DUPES,
                                       F_NODEFAULT, F_TITLE if allow_single_title else 0, F_KEYSTRVAL if allow_keystrval else 0,
                                       (F_KEYSTRVAL | F_MULTI | F_TITLE) if allow_keystrval else F_MULTI]))
            if sf & F_KEYSTRVAL and draw(st.booleans()):
                sub = None if draw(st.booleans()) else []
            else:
                sub = draw(schemas(depth=depth + 1, max_depth=max_depth, nocase=nocase, allow_func=allow_func, allow_ptr=allow_ptr,
                                   allow_deprecated=allow_deprecated, allow_keystrval=allow_keystrval,
                                   allow_single_title=allow_single_title))
            opts.append(o_sec(name, sub, sf))
    return opts

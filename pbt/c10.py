"""C10 — a rejected update leaves the option exactly as it was."""
import itertools

from hypothesis import strategies as st

from execclient import Script, hx, by_index
from runner import Failure, Outcome, h64
from schema import (HAND, emit_schema, F_MULTI, F_TITLE, F_NO_TITLE_DUPES, F_NODEFAULT, F_LIST, F_COMMENTS, CB_VALID2, CB_PARSE,
                    o_int, o_float, o_bool, o_str, o_list, o_sec, o_ptr, o_simple)

SCHEMA = [
    o_int("i", 5, 0, CB_VALID2), o_float("f", "2.5", 0, CB_VALID2), o_str("s", "d", 0, CB_VALID2), o_bool("b", 0),
    o_list("int", "il", "{10, 20}", 0, CB_VALID2), o_list("str", "sl", "{a, b}", 0, CB_VALID2), o_list("float", "fl", "{1.5}", 0, CB_VALID2),
    o_list("bool", "bl", "{true}"), o_int("ni", 0, F_NODEFAULT), o_list("int", "el", None),
    o_int("pi", 0, F_NODEFAULT, CB_PARSE), o_float("pf", "1.5", 0, CB_PARSE), o_bool("pb", 0, 0, CB_PARSE), o_list("int", "pil", None, 0, CB_PARSE), o_ptr("p"), o_ptr("pl", F_LIST),
    o_sec("single", [o_int("x", 7), o_list("int", "zl", "{1, 2}")]),
    o_sec("tm", [o_int("x", 7), o_list("int", "zl", "{1}")], F_MULTI | F_TITLE),
    o_sec("tu", [o_int("x", 7)], F_MULTI | F_TITLE | F_NO_TITLE_DUPES),
    o_sec("multi", [o_int("x", 7)], F_MULTI),
    o_simple("int", "si", 5), o_simple("float", "sf", "2.5"), o_simple("bool", "sb", 0), o_simple("str", "ss", "d"),   # CFG_SIMPLE_*
]
HAND["c10"] = SCHEMA
H = hx

# how option states are reached (script lines on context 1)
STATES = {
    "pristine": [],
    "set-by-parse": [["parse_buf", 1, H("i = 3\nf = 0.5\ns = x\nb = on\nil = {1, 2, 3, 4, 5}\nsl = {z}\nfl = {0.25, 4}\nbl = {no, yes}\nni = 1\nel = {9}\n"
                                         "si = 3\nsf = 0.5\nsb = on\nss = x\npi = abc\npf = q\npb = zz\npil = {u, vv}\np = pv\npl = {a, b}\ntm a { x = 1 zl = {3, 4} }\ntm b { }\ntu t { }\nmulti { }\nsingle { x = 2 }\n")]],
    "set-by-api": [["setint", 1, H("i"), 0, H("3")], ["setfloat", 1, H("f"), 0, H("0.5")], ["setstr", 1, H("s"), 0, H("x")],
                   ["setint", 1, H("il"), 0, H("1")], ["setstr", 1, H("sl"), 1, H("y")], ["addlist", 1, H("fl"), "f", 1, "0.75"],
                   ["addtsec", 1, H("tm"), H("a")], ["addtsec", 1, H("tu"), H("t")], ["setint", 1, H("el"), 0, H("4")],
                   ["setint", 1, H("si"), 0, H("3")], ["setstr", 1, H("ss"), 0, H("x")],
                   ["getopt", 1, H("pi"), 8], ["setopt", 1, 8, H("abc")], ["setfloat", 1, H("pf"), 0, H("0.5")], ["setbool", 1, H("pb"), 0, H("1")]],
    "emptied": [["parse_buf", 1, H("il = {}\nsl = {}\nfl = {}\nbl = {}\ntm a { zl = {} }\n")]],
    "annotated-pristine": [["setcomment", 1, H(n), H("annotation of " + n)] for n in ("i", "f", "s", "b", "il", "sl", "fl", "bl", "ni", "el")] +
                          [["addtsec", 1, H("tm"), H("a")]],
    "annotated-set": [["parse_buf", 1, H("# ci\ni = 3\n# cf\nf = 0.5\n/* cs */ s = x\n# cb\nb = on\n# cil\nil = {1, 2}\n# csl\nsl = {z}\n# cfl\nfl = {0.25}\n"
                                         "# cbl\nbl = {no}\ntm a { # cx\nx = 1 }\n")]],
    "appended": [["parse_buf", 1, H("il += {30}\nsl += c\nfl += {2, 3, 4, 5}\ntm a { zl += 9 }\ntm b { }\n")]],
    "single-element": [["parse_buf", 1, H("il = {7}\nsl = q\nfl = 1\nbl = on\n")]],
}

BAD = {"int": "bad!", "float": "1.5x", "bool": "maybe"}
RANGE = {"int": "99999999999999999999999", "float": "1e999"}
GOOD = {"int": ["-1", "3000000000000", "-3", "4"], "float": ["0.5", "1", "2.5", "4"], "bool": ["on", "no", "yes", "off"], "str": ["g1", "g2", "g3", "g4"]}
TYPED = [("i", "int", False), ("f", "float", False), ("b", "bool", False), ("il", "int", True), ("fl", "float", True), ("bl", "bool", True),
         ("ni", "int", False), ("el", "int", True), ("tm=a|zl", "int", True), ("single|x", "int", False),
         ("si", "int", False), ("sf", "float", False), ("sb", "bool", False)]


def refusing_calls():
    """(name, [script lines]) — every call below must be refused by construction"""
    C = []
    for path, kind, lst in TYPED:
        for n in (1, 2, 3, 4):
            for p in range(n):
                texts = [GOOD[kind][k] for k in range(n)]
                texts[p] = BAD[kind]
                C.append(("setmulti %s bad@%d/%d" % (path, p, n), [["setmulti", 1, H(path), n] + [H(t) for t in texts]], path))
        if kind in RANGE:
            for n in (1, 2, 3):
                texts = [GOOD[kind][k] for k in range(n)]
                texts[-1] = RANGE[kind]
                C.append(("setmulti %s out-of-range@%d/%d" % (path, n - 1, n), [["setmulti", 1, H(path), n] + [H(t) for t in texts]], path))
            C.append(("setopt %s out-of-range-text" % path, [["getopt", 1, H(path), 9], ["setopt", 1, 9, H(RANGE[kind])]], path))
            C.append(("setopt %s negative-out-of-range-text" % path, [["getopt", 1, H(path), 9], ["setopt", 1, 9, H("-" + RANGE[kind])]], path))
        C.append(("setmulti %s zero-values" % path, [["setmulti", 1, H(path), 0]], path))
        C.append(("setopt %s bad-text" % path, [["getopt", 1, H(path), 9], ["setopt", 1, 9, H(BAD[kind])]], path))
        C.append(("setopt %s empty-text" % path, [["getopt", 1, H(path), 9], ["setopt", 1, 9, H("")]], path) if kind != "bool" else
                 ("setopt %s empty-text" % path, [["getopt", 1, H(path), 9], ["setopt", 1, 9, H("")]], path))
    C.append(("setmulti pi parse-callback-refuses", [["cbfail", 2], ["setmulti", 1, H("pi"), 3, H("a"), H("b"), H("c")], ["cbfail", 0]], "pi"))
    C.append(("setmulti pl parse-callback-refuses", [["cbfail", 3], ["setmulti", 1, H("pl"), 3, H("a"), H("b"), H("c")], ["cbfail", 0]], "pl"))
    C.append(("setopt p parse-callback-refuses", [["getopt", 1, H("p"), 9], ["cbfail", 1], ["setopt", 1, 9, H("zz")], ["cbfail", 0]], "p"))
    # (the executor's callback writes to its result before it refuses)
    for nm in ("pi", "pf", "pb", "pil"):
        C.append(("setopt %s parse-callback-refuses" % nm, [["getopt", 1, H(nm), 9], ["cbfail", 1], ["setopt", 1, 9, H("zz")], ["cbfail", 0]], nm))
        C.append(("setmulti %s parse-callback-refuses" % nm, [["cbfail", 1], ["setmulti", 1, H(nm), 1, H("zz")], ["cbfail", 0]], nm))
    # vetoed by the pre-set validation callback
    for path, idxs in (("i", [0]), ("il", [0, 1, 2, 7])):
        for idx in idxs:
            C.append(("setint %s[%d] vetoed" % (path, idx), [["setint", 1, H(path), idx, H("666")]], path))
    for path, idxs in (("f", [0]), ("fl", [0, 1, 5])):
        for idx in idxs:
            C.append(("setfloat %s[%d] vetoed" % (path, idx), [["setfloat", 1, H(path), idx, H("666")]], path))
    for path, idxs in (("s", [0]), ("sl", [0, 2, 6])):
        for idx in idxs:
            C.append(("setstr %s[%d] vetoed" % (path, idx), [["setstr", 1, H(path), idx, H("veto")]], path))
    # wrong type
    for cmd, path in (("setint", "s"), ("setint", "f"), ("setint", "sl"), ("setstr", "i"), ("setstr", "il"), ("setfloat", "b"), ("setfloat", "i"),
                      ("setbool", "f"), ("setbool", "il"), ("setint", "tm"), ("setstr", "single"), ("setint", "p"),
                      ("setstr", "si"), ("setint", "ss"), ("setfloat", "sb"), ("setbool", "sf")):
        C.append(("%s on %s (wrong type)" % (cmd, path), [[cmd, 1, H(path), 0, H("1")]], path))
    for cmd, path in (("osetint", "s"), ("osetstr", "il"), ("osetfloat", "b"), ("osetbool", "i")):
        C.append(("%s on %s (wrong type)" % (cmd, path), [["getopt", 1, H(path), 9], [cmd, 9, 0, H("1")]], path))
    for cmd in ("setlist", "addlist"):
        for path in ("i", "s", "f", "b", "tm", "nosuch", "si", "ss"):
            C.append(("%s on %s (not a list)" % (cmd, path), [[cmd, 1, H(path), "i", 1, "1"]], path))
    # illegal index on a scalar
    for cmd, path, v in (("setint", "i", "9"), ("setstr", "s", "v"), ("setfloat", "f", "9"), ("setbool", "b", "1"), ("setint", "ni", "1"),
                         ("setint", "single|x", "1"), ("setint", "si", "1"), ("setstr", "ss", "v")):
        for idx in (1, 2, 100):
            C.append(("%s %s[%d] (index on scalar)" % (cmd, path, idx), [[cmd, 1, H(path), idx, H(v)]], path))
    # unknown names
    for cmd in ("setint", "setstr", "setfloat", "setbool"):
        C.append(("%s nosuch" % cmd, [[cmd, 1, H("nosuch"), 0, H("1")]], "nosuch"))
    C.append(("setmulti nosuch", [["setmulti", 1, H("nosuch"), 1, H("1")]], "nosuch"))
    C.append(("setcomment nosuch", [["setcomment", 1, H("nosuch"), H("c")]], "nosuch"))
    C.append(("setint tm=zz|x", [["setint", 1, H("tm=zz|x"), 0, H("1")]], "tm"))
    # sections
    for sec, title in (("tm", "a"), ("tu", "t")):
        C.append(("addtsec %s existing title" % sec, [["addtsec", 1, H(sec), H(title)]], sec))
    C.append(("addtsec i (not a section)", [["addtsec", 1, H("i"), H("77")]], "i"))
    C.append(("addtsec nosuch", [["addtsec", 1, H("nosuch"), H("x")]], "nosuch"))
    for sec, title in (("tm", "zz"), ("tu", "zz"), ("multi", "x"), ("i", "x"), ("nosuch", "x"), ("tm", ""), ("tu", ""), ("tm", "A"), ("tm", "a ")):
        C.append(("rmtsec %s missing title" % sec, [["rmtsec", 1, H(sec), H(title)]], sec))
    for sec, idx in (("tm", 2), ("tm", 99), ("tu", 1), ("multi", 1), ("single", 1), ("i", 0), ("nosuch", 0)):
        C.append(("rmnsec %s %d (no such instance)" % (sec, idx), [["rmnsec", 1, H(sec), idx]], sec))
    for path in ("tm=zz", "tm=c", "multi=5", "nosuch", "i", "single|x", "tu=zz", "tm=a|nosuch"):
        C.append(("rmsec %s (does not resolve)" % path, [["rmsec", 1, H(path)]], path))
    return C


CALLS = refusing_calls()
# states in which the call is *not* a refusal by construction
EXCEPT = {
    ("addtsec tm existing title", "pristine"), ("addtsec tu existing title", "pristine"), ("addtsec tm existing title", "single-element"),
    ("addtsec tu existing title", "single-element"), ("addtsec tu existing title", "emptied"), ("addtsec tu existing title", "annotated-pristine"),
    ("addtsec tu existing title", "annotated-set"), ("addtsec tu existing title", "appended"),
    ("rmnsec tm 2 (no such instance)", "x"), ("rmsec tm=c (does not resolve)", "x"),
}


def tm_a_exists(state):
    return state not in ("pristine", "single-element")


class C10:
    id = "C10"
    level = "exploration"
    variants = ("asan",)
    rule = ("complete product of %d option-state recipes (pristine, set by parse, set by API, emptied, annotated pristine, "
            "annotated set, appended, single element) x %d refusing calls (cfg_setmulti with the unconvertible element at every "
            "position of 1-4 values for int/float/bool scalars (ordinary and CFG_SIMPLE_*) and lists incl. nested ones, zero values, refused parse "
            "callback; by-name setters vetoed by the validation callback at index 0/last/new; wrong type; index on a "
            "scalar; list calls on non-lists; unknown names; cfg_addtsec existing title / non-section; cfg_rmtsec / "
            "cfg_rmnsec / cfg_rmsec of non-existing sections; cfg_setopt with unconvertible or empty text), with "
            "CFGF_COMMENTS on; Hypothesis adds interleavings with arbitrary other calls (and every one of those that reports failure is held to the same rule). Oracle: the call reports failure and the "
            "full dump (values, counts, order, annotations, all flag bits incl. RESET/MODIFIED, every other option) is "
            "bit-identical before and after. Non-trivial = state other than 'explicitly set' or offending position not "
            "last; distinct = distinct (state, call)" % (len(STATES), len(CALLS)))
    assumptions = ["refusals are refusals by construction (the generator only builds calls the statement lists as refused)"]

    def script(self, subs):
        s = Script()
        emit_schema(s, 0, SCHEMA)
        marks = []
        for state, ci, pre in subs:
            s.add("newcase")
            s.add("init", 1, 0, F_COMMENTS)
            for line in STATES[state]:
                s.add(*line)
            premarks = []
            last = s.add("dump", 1) if pre else None
            for line in pre:
                k = s.add(*line)
                nxt = s.add("dump", 1)
                premarks.append((last, k, nxt, line[0]))
                last = nxt
            name, lines, _ = CALLS[ci]
            i0 = s.add("dump", 1)
            ic = None
            for line in lines:
                k = s.add(*line)
                if line[0] not in ("getopt", "cbfail"):
                    ic = k
            i1 = s.add("dump", 1)
            marks.append((i0, ic, i1, premarks))
        s.add("newcase")
        return s, marks

    @staticmethod
    def applicable(state, name, pre=()):
        if pre and name.startswith(("rmnsec tm 2", "rmnsec tu 1", "rmnsec multi 1", "addtsec tm existing", "addtsec tu existing")):
            return False           # after arbitrary successful calls these are no longer refusals by construction
        if name.startswith("addtsec tm existing") and not tm_a_exists(state):
            return False
        if name.startswith("addtsec tu existing") and state not in ("set-by-parse", "set-by-api"):
            return False
        if "tm=a|" in name and not tm_a_exists(state):
            return True            # unresolvable path: still a refusal
        if name.startswith("rmnsec tm 2") and state in ("set-by-parse", "appended"):
            return True
        if name.startswith("rmnsec tu 1") and False:
            return False
        if name.startswith("rmnsec multi 1"):
            return True
        if name.startswith("rmsec tm=c"):
            return True
        return True

    def check_case(self, case, get_ex):
        subs = [(a, b, c) for a, b, c in case["subs"]]
        s, marks = self.script(subs)
        r = get_ex("asan").run(s, cpu=30, wall=120)
        t = by_index(r.trace)
        fails, keys, cc = [], [], {}
        crashed = False
        for (state, ci, pre), (i0, ic, i1, premarks) in zip(subs, marks):
            name = CALLS[ci][0]
            # the calls before the one under test are arbitrary: whichever of them reports failure must have changed nothing
            for (b0, k, b1, cmd) in premarks:
                if b0 in t and k in t and b1 in t and not t[k].get("skipped") and not cmd.startswith("parse"):
                    e = t[k]
                    refused = (e.get("rc") not in (0, None)) if "rc" in e else (("ok" in e and not e["ok"]) or ("p" in e and not e["p"]))
                    if refused and t[b0]["tree"] != t[b1]["tree"]:
                        diff = first_diff(t[b0]["tree"], t[b1]["tree"])
                        fails.append(Failure("changed/%s-reporting-failure/%s" % (cmd, diff[0]),
                                             "state %s: call %r reported failure (%r) but changed the configuration: %s" % (state, e.get("c"), e, diff[1]),
                                             {"subs": [[state, ci, pre]]}))
                        break
            if not self.applicable(state, name, pre):
                continue
            m = name.split(" ")[0]
            cc[m] = cc.get(m, 0) + 1
            nt = state != "set-by-parse" or ("bad@" in name and not name.endswith(("@0/1", "@1/2", "@2/3", "@3/4")))
            if nt:
                keys.append(h64([state, name, pre]))
            sig = msg = None
            if i0 not in t or i1 not in t or ic not in t:
                if len(subs) > 1 and crashed:
                    continue
                crashed = True
                if len(subs) > 1:
                    o1 = self.check_case({"subs": [[state, ci, pre]]}, get_ex)
                    if o1.failure:
                        fails.append(o1.failure)
                    continue
                sig, msg = "die/%s/%s" % (r.death(), m), "state %s, call %s\n%s" % (state, name, r.stderr.decode("latin-1")[:1500])
            else:
                e = t[ic]
                if e.get("skipped"):
                    continue
                ok = (e.get("rc") == 0) if "rc" in e else (bool(e.get("ok")) if "ok" in e else bool(e.get("p")))
                if ok:
                    sig, msg = "not-refused/%s" % m, "state %s: call %s reported success (%r)" % (state, name, e)
                elif t[i0]["tree"] != t[i1]["tree"]:
                    diff = first_diff(t[i0]["tree"], t[i1]["tree"])
                    sig = "changed/%s/%s" % (" ".join(name.split(" ")[:1]) + ("-" + name.split(" ")[-1] if m in ("setmulti", "setopt") else ""), diff[0])
                    msg = "state %s: refused call %s changed the configuration: %s" % (state, name, diff[1])
            if sig:
                fails.append(Failure(sig, msg, {"subs": [[state, ci, pre]]}))
        mid = subs[len(subs) // 2]
        return Outcome(count=len(subs), keys=keys, class_counts=cc, nontrivial=bool(keys), failure=fails[0] if fails else None,
                       failures=fails[1:10], sample={"state": mid[0], "call": CALLS[mid[1]][0], "then": mid[2]})

    def run(self, r):
        subs = [[state, ci, []] for state in STATES for ci in range(len(CALLS))]
        B = 60
        r.run_cases([{"subs": subs[i:i + B]} for i in range(0, len(subs), B)], chunksize=1)
        r.exhaustive = True
        r.run_hypothesis(12000 if r.tier == "quick" else 200000)

    def strategy(self, tier):
        from c09 import OPS

        @st.composite
        def case(draw):
            subs = []
            for _ in range(10):
                state = draw(st.sampled_from(sorted(STATES)))
                pre = [OPS[k][1] for k in draw(st.lists(st.integers(0, len(OPS) - 1), max_size=5))]
                # C09's alphabet addresses options of its own schema; keep those that exist here too
                pre = [p for p in pre if bytes.fromhex(p[2][1:]).decode().split("|")[0].split("=")[0] in
                       ("i", "s", "il", "sl", "fl", "b", "ni", "f", "single", "tm", "tu", "multi")]
                # ... and do not create the very sections whose absence makes a later call a refusal (the empty title)
                pre = [p for p in pre if not (p[0] == "addtsec" and p[3] == "x")]
                subs.append([state, draw(st.integers(0, len(CALLS) - 1)), pre])
            return {"subs": subs}
        return case()


def first_diff(a, b, path=""):
    """-> (class, description)"""
    if len(a["opts"]) != len(b["opts"]):
        return "options", "%s: option count %d -> %d" % (path, len(a["opts"]), len(b["opts"]))
    for oa, ob in zip(a["opts"], b["opts"]):
        n = bytes.fromhex(oa["n"]).decode("latin-1")
        p = path + "/" + n
        if oa["c"] != ob["c"]:
            return "annotation", "%s: annotation %r -> %r" % (p, oa["c"], ob["c"])
        if oa["f"] != ob["f"]:
            return "flags", "%s: flags %#x -> %#x" % (p, oa["f"], ob["f"])
        if len(oa["v"]) != len(ob["v"]):
            return "count", "%s: %d values %r -> %d values %r" % (p, len(oa["v"]), oa["v"] if oa["t"] != 5 else "..", len(ob["v"]), ob["v"] if ob["t"] != 5 else "..")
        for i, (x, y) in enumerate(zip(oa["v"], ob["v"])):
            if isinstance(x, dict) and isinstance(y, dict):
                if x["title"] != y["title"]:
                    return "title", "%s[%d]: title changed" % (p, i)
                d = first_diff(x, y, "%s[%d]" % (p, i))
                if d:
                    return d
            elif x != y:
                return "value", "%s[%d]: %r -> %r" % (p, i, x, y)
    return None


PROP = C10()

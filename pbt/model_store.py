"""Abstract store model for the setter / list / section API (DESIGN Appendix A), on top of the language model's tree.

Every operation returns the expected result (0 / -1, or True/False for pointer-returning calls) and mutates the model
tree; a refused operation changes nothing (that is property C10)."""
from model_lang import Model, MOpt, MSec, conv_int, conv_float, conv_bool, Reject, pure_int
from schema import F_LIST, F_MULTI, F_TITLE, F_NOCASE, F_NO_TITLE_DUPES, F_KEYSTRVAL, CB_PARSE, CB_VALID2

OK, FAIL = 0, -1


class Store(Model):
    # ---- path resolution (the simple forms used by C09/C10; C11 tests the path language itself) -------------
    def resolve_sec(self, sec, step):
        """step: 'name' | 'name=qualifier' -> (option, index) or (None, None)"""
        name, _, qual = step.partition("=")
        o = sec.find(name)
        if o is None or o.kind != "sec":
            return None, None
        if "=" not in step:
            return o, 0
        if not (o.d["f"] & F_MULTI):
            return o, None
        if o.d["f"] & F_TITLE:
            for i, s in enumerate(o.vals):
                same = (s.title.lower() == qual.lower()) if (o.d["f"] & F_NOCASE) else (s.title == qual)
                if same:
                    return o, i
            return o, None
        try:
            return o, int(qual, 0)
        except ValueError:
            return o, None

    def getopt(self, path, sec=None):
        sec = sec or self.root
        steps = path.split("|")
        for st in steps[:-1]:
            o, i = self.resolve_sec(sec, st)
            if o is None or i is None or i < 0 or i >= len(o.vals):
                return None, None
            sec = o.vals[i]
        return sec, sec.find(steps[-1])

    def getsec(self, path, sec=None):
        """-> (option, index) of the addressed section instance"""
        sec = sec or self.root
        steps = path.split("|")
        for st in steps[:-1]:
            o, i = self.resolve_sec(sec, st)
            if o is None or i is None or i < 0 or i >= len(o.vals):
                return None, None
            sec = o.vals[i]
        o, i = self.resolve_sec(sec, steps[-1])
        if o is None or i is None or i < 0 or i >= len(o.vals):
            return o, None
        return o, i

    # ---- typed setters ----------------------------------------------------------------------------------
    def set_typed(self, path, kind, idx, value, byname=True, sec=None):
        _, o = self.getopt(path, sec)
        if o is None or o.kind != kind:
            return FAIL
        if byname and (o.d.get("cb", 0) & CB_VALID2) and kind in ("int", "float", "str"):
            # pre-set validation: veto 666 / 666.0 / "veto"; rewrite 777 -> 778, 777.0 -> 778.5
            if kind == "int":
                if value == 666:
                    return FAIL
                if value == 777:
                    value = 778
            elif kind == "float":
                if value == 666.0:
                    return FAIL
                if value == 777.0:
                    value = 778.5
            elif value == "veto":
                return FAIL
        if idx != 0 and not o.is_list:
            return FAIL
        if o.reset:
            o.vals = []           # model follows code: a typed set on pristine defaults discards them first
            o.reset = False
        if idx < len(o.vals):
            o.vals[idx] = value
        else:
            o.vals.append(value)  # model follows code: an index beyond the end appends one element
        o.modified = True
        return OK

    def setlist(self, path, kind, values, append=False):
        _, o = self.getopt(path)
        if o is None or not o.is_list:
            return FAIL
        if not append:
            o.vals = []
            if not o.reset:
                o.comment = None  # model follows code: cfg_free_value() drops the annotation of a non-pristine option
            o.reset = False
            o.modified = True
        if o.kind != kind and values:
            # mismatched variadic types are a documented precondition violation; never generated
            raise ValueError("type mismatch in generated case")
        for v in values:
            o.reset = False       # appending appends to whatever the option holds, defaults included
            o.vals.append(v)
            o.modified = True
        return OK

    def conv(self, o, text):
        if o.d.get("cb", 0) & CB_PARSE:
            if text is None:
                return None, False
            k = o.kind
            return ({"int": pure_int(text), "float": len(text) + 0.5, "bool": len(text) & 1, "str": "<" + text + ">",
                     "ptr": text if (o.d.get("cb", 0) & 16) else "unowned"}[k]), True
        if o.kind == "str":
            return text, text is not None
        if o.kind == "ptr":
            return None, False
        c = {"int": conv_int, "float": conv_float, "bool": conv_bool}[o.kind](text)
        if c[0] == "ok":
            return c[1], True
        if c[0] == "grey":
            raise ValueError("grey numeral in generated case")
        return None, False

    def setmulti(self, path, texts):
        _, o = self.getopt(path)
        if o is None or not texts or o.kind in ("sec", "func"):
            return FAIL
        out = []
        for t in texts:
            v, ok = self.conv(o, t)
            if not ok:
                return FAIL
            out.append(v)
        o.vals = out if o.is_list else [out[-1]]
        o.reset = False
        o.modified = True
        return OK

    def setopt(self, path, text):
        _, o = self.getopt(path)
        if o is None or o.kind in ("sec", "func"):
            return False
        v, ok = self.conv(o, text)
        if not ok:
            return False
        if o.reset:
            o.vals = []
            o.reset = False
        if o.is_list or not o.vals:
            o.vals.append(v)
        else:
            o.vals[0] = v
        o.modified = True
        return True

    def setcomment(self, path, text):
        _, o = self.getopt(path)
        if o is None or text is None:
            return FAIL
        o.comment = text
        o.modified = True
        return OK

    # ---- sections -----------------------------------------------------------------------------------------
    def addtsec(self, path, title):
        """-> new section or None"""
        sec, o = self.getopt(path)
        if o is None or o.kind != "sec" or title is None:
            return None
        f = o.d["f"]
        if not (f & F_TITLE) or not (f & F_MULTI):
            raise ValueError("addtsec on a section without TITLE|MULTI is grey; not generated")
        for s in o.vals:
            same = (s.title.lower() == title.lower()) if (sec.flags & F_NOCASE) else (s.title == title)
            if same:
                return None
        inst = self.new_section(o.d["n"], title, o.d.get("sub"), sec.flags | (F_KEYSTRVAL if f & F_KEYSTRVAL else 0))
        o.vals.append(inst)
        o.modified = True
        return inst

    def rmnsec(self, path, idx):
        _, o = self.getopt(path)
        if o is None or o.kind != "sec" or idx < 0 or idx >= len(o.vals):
            return FAIL
        del o.vals[idx]
        return OK

    def rmtsec(self, path, title):
        sec, o = self.getopt(path)
        if o is None or o.kind != "sec" or title is None or not (o.d["f"] & F_TITLE):
            return FAIL
        for i, s in enumerate(o.vals):
            same = (s.title.lower() == title.lower()) if (o.d["f"] & F_NOCASE) else (s.title == title)
            if s.title is not None and same:
                del o.vals[i]
                return OK
        return FAIL

    def rmsec(self, path):
        o, i = self.getsec(path)
        if o is None or i is None:
            return FAIL
        del o.vals[i]
        return OK

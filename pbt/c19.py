"""C19 — print emits each unfiltered option once, in order, at its depth."""
from hypothesis import strategies as st

import gen_text
from execclient import Script, hx, by_index
from model_lang import Model
from runner import Failure, Outcome, h64
from schema import (HAND, schemas, emit_schema, F_NOCASE, F_COMMENTS, F_MULTI, F_TITLE, F_LIST, F_NODEFAULT, CB_PRINT,
                    o_int, o_str, o_list, o_sec, o_func, o_ptr, o_float, o_bool)

HAND["c19"] = [
    o_int("i", 5), o_float("f", "1.5"), o_bool("b", 1), o_str("s", "d\"q"), o_str("sn", None), o_int("ni", 0, F_NODEFAULT),
    o_list("int", "il", "{1, 2}"), o_list("str", "sl", None), o_func("fn"), o_ptr("p"), o_ptr("pl", F_LIST),
    o_sec("single", [o_int("x", 1), o_str("y", "why"), o_sec("inner", [o_int("z", 1), o_list("str", "zl", "{a}")])]),
    o_sec("tm", [o_int("x", 1), o_func("g"), o_sec("deep", [o_int("d", 4), o_sec("deepest", [o_int("e", 5)], F_MULTI)], F_MULTI | F_TITLE)],
          F_MULTI | F_TITLE),
    o_sec("multi", [o_int("x", 1), o_str("y", None)], F_MULTI),
]
C19_TEXT = ("i = 7\nsl = {\"a b\", c}\np = ptrval\npl = {u, v}\nsingle { x = 2 inner { zl += b } }\n"
            "tm a { x = 3 deep d1 { d = 6 deepest { } deepest { e = 9 } } deep d2 { } }\ntm \"b c\" { }\nmulti { }\nmulti { y = set }\n")


def quoted(s):
    out = ['"']
    for i, ch in enumerate(s or ""):
        if ch == '"':
            out.append('\\"')
        elif ch == "\\":
            out.append("\\\\")
        elif ch == "$" and s[i + 1:i + 2] == "{":
            out.append("\\$")
        else:
            out.append(ch)
    out.append('"')
    return "".join(out)


def canon(line):
    """remove blanks outside double quotes"""
    out = []
    inq = False
    i = 0
    while i < len(line):
        ch = line[i]
        if inq:
            out.append(ch)
            if ch == "\\" and i + 1 < len(line):
                out.append(line[i + 1])
                i += 1
            elif ch == '"':
                inq = False
        else:
            if ch == '"':
                inq = True
                out.append(ch)
            elif ch not in " \t":
                out.append(ch)
        i += 1
    return "".join(out)


def logical_lines(text):
    """split at newlines outside quotes -> list of (indent, canonical line)"""
    lines = []
    cur = []
    inq = False
    i = 0
    while i < len(text):
        ch = text[i]
        if inq:
            cur.append(ch)
            if ch == "\\" and i + 1 < len(text):
                cur.append(text[i + 1])
                i += 1
            elif ch == '"':
                inq = False
        elif ch == "\n":
            lines.append("".join(cur))
            cur = []
        else:
            if ch == '"' and not "".join(cur).lstrip().startswith(("/*", "#")):
                inq = True
            cur.append(ch)
        i += 1
    if cur:
        lines.append("".join(cur))
    out = []
    for ln in lines:
        ind = len(ln) - len(ln.lstrip(" "))
        out.append((ind, canon(ln) if not ln.lstrip().startswith(("/*", "# ")) or "=" in ln else canon(ln)))
    return out


class Printer:
    """expected print output as (depth, canonical line) — DESIGN Appendix B"""

    def __init__(self, filters, pfs):
        self.filters = filters        # id(MSec) -> set of hidden names
        self.pfs = pfs                # id(MOpt) -> True

    def value(self, o, i):
        if id(o) in self.pfs:
            return "<%s:%d>" % (o.d["n"], i)
        k = o.kind
        v = o.vals[i] if i < len(o.vals) else None
        if k == "int":
            return "%d" % (v if v is not None else 0)
        if k == "float":
            return "%f" % (v if v is not None else 0.0)
        if k == "bool":
            return "true" if v else "false"
        if k == "str":
            return quoted(v)
        return ""

    def opt(self, o, eff, depth, out):
        if o.comment is not None and o.kind != "sec_nocomment":
            c = o.comment
            if "*/" in c and "\n" not in c:
                out.append((depth, canon("# " + c)))
            else:
                out.append((depth, canon("/* " + c + " */")))
        k = o.kind
        if k == "sec":
            for inst in o.vals:
                head = o.d["n"] + ((quoted(inst.title)) if (o.d["f"] & F_TITLE) else "") + "{"
                out.append((depth, canon(head)))
                self.sec(inst, eff, depth + 1, out)
                out.append((depth, "}"))
        elif k == "func":
            if id(o) in self.pfs:
                out.append((depth, "<%s:0>" % o.d["n"]))
        elif o.is_list:
            out.append((depth, canon(o.d["n"] + "={" + ",".join(self.value(o, i) for i in range(len(o.vals))) + "}")))
        else:
            unset = (len(o.vals) == 0) or (k == "str" and o.vals[0] is None)
            out.append((depth, canon(("#" if unset else "") + o.d["n"] + "=" + self.value(o, 0))))

    def sec(self, msec, fb, depth, out):
        eff = self.filters.get(id(msec), fb)
        for o in msec.opts:
            if eff is not None and o.d["n"] in eff:
                continue
            self.opt(o, eff, depth, out)


class C19:
    id = "C19"
    level = "exploration"
    variants = ("asan",)
    rule = ("schemas (hand-built and random: all option kinds incl. FUNC/PTR and top-level CFG_SIMPLE_*, unset scalars, empty lists, multi sections with "
            "0-3 instances, depth <= 4) x states reached by parsing (with single-line annotations) x filter predicates "
            "(hide-sets of names, 8 distinct predicates) installed on any subset of {root, each section instance}, optionally "
            "preceded by a filter history (a predicate installed on the root or a plain section before the parse creates "
            "instances, then kept, removed or replaced) x any "
            "subset of option instances carrying a print callback x entry points cfg_print, cfg_print_indent(n), "
            "cfg_opt_print, cfg_opt_print_indent(n). Oracle: printer model yields the expected sequence of (depth, line); the "
            "output is split at newlines outside quotes, indentation mapped to depth with one consistent unit, blanks "
            "outside quotes removed. Non-trivial = depth >= 2 with a filter on an inner section only or the root only, or "
            "any print callback; distinct = distinct (state, filters, callbacks, entry point)")
    assumptions = ["multi-line annotations are not generated (the line-based comparison could not place them)",
                   "spacing inside a line is cosmetic: blanks outside quotes are ignored"]

    def check_case(self, case, get_ex):
        schema = HAND[case["schema"]] if isinstance(case["schema"], str) else case["schema"]
        flags = case["flags"]
        text = case["text"] if "text" in case else gen_text.render(case["tokens"])
        m = Model(schema, flags)
        exp = m.parse(text)
        if not exp["accept"] or exp.get("grey"):
            return Outcome(classes=["base-not-accepted"], sample={"text": text[:200]})
        s = Script()
        emit_schema(s, 0, schema)
        s.add("init", 1, 0, flags)
        # filter history: predicates installed before the parse creates section instances, later kept, removed or replaced;
        # the effective filter at print time is a function of the filters installed *then*
        early = []
        allnames = []

        def collect(opts):
            for d in opts:
                allnames.append(d["n"])
                if d.get("sub"):
                    collect(d["sub"])
        collect(schema)
        plain_secs = [o.d["n"] for o in m.root.opts if o.kind == "sec" and not (o.d["f"] & (F_MULTI | F_NODEFAULT)) and len(o.vals) == 1]
        cands = [None] + plain_secs
        used = set()
        for j, (pos, hide, fate) in enumerate(case.get("early", [])[:2]):
            which = cands[int(pos * len(cands)) % len(cands)]
            if which in used:
                continue
            used.add(which)
            hs = sorted(set(allnames[int(f * len(allnames)) % len(allnames)] for f in hide)) if allnames else []
            if which is None:
                eh = 1
            else:
                eh = 8 - j
                s.add("getnsec", 1, hx(which), 0, eh)
            s.add("filterk", eh, 7 - j, len(hs), *[hx(n) for n in hs])
            early.append((which, eh, hs, fate, j))
        ip = s.add("parse_buf", 1, hx(text))
        secs = [(1, m.root, 0)]
        nh = [10]
        paths = {1: []}       # handle -> [(name, qualified step)] from the root

        def qualify(o, idx, inst):
            f = o.d["f"]
            if not (f & F_MULTI):
                return o.d["n"]
            if f & F_TITLE:
                t = inst.title or ""
                return o.d["n"] + "='" + t.replace("\\", "\\\\").replace("'", "\\'") + "'"
            return "%s=%d" % (o.d["n"], idx)

        def walk(msec, handle, depth):
            for o in msec.opts:
                if o.kind == "sec":
                    for idx, inst in enumerate(o.vals):
                        h = nh[0]
                        nh[0] += 1
                        s.add("getnsec", handle, hx(o.d["n"]), idx, h)
                        secs.append((h, inst, depth + 1))
                        dup = (o.d["f"] & F_TITLE) and [x.title for x in o.vals].count(inst.title) > 1
                        paths[h] = None if (paths.get(handle) is None or dup) else paths[handle] + [(o.d["n"], qualify(o, idx, inst))]
                        walk(inst, h, depth + 1)
        walk(m.root, 1, 0)
        # choose filters and print callbacks from the case's fractions
        filters, pfs = {}, {}
        ecl = []
        for which, eh, hs, fate, j in early:
            if which is None:
                msec = m.root
            else:
                msec = [o for o in m.root.opts if o.d["n"] == which][0].vals[0]
            if fate == 0:
                filters[id(msec)] = set(hs)
                ecl.append("filter/early-kept")
            elif fate == 1:
                s.add("filterk", eh, -1, 0)
                ecl.append("filter/early-removed")
            else:
                hs2 = sorted(set(allnames) - set(hs))[:3]
                filters[id(msec)] = set(hs2)
                s.add("filterk", eh, 5 - j, len(hs2), *[hx(n) for n in hs2])
                ecl.append("filter/early-replaced")
        fsel = case.get("filters", [])
        k = 0
        for (pos, hide) in fsel:
            if k >= 4 or not secs:
                break
            h, msec, depth = secs[int(pos * len(secs)) % len(secs)]
            if id(msec) in filters:
                continue
            names = [o.d["n"] for o in msec.opts]
            # the hide set may also name options of nested sections (inheritance)
            deeper = []
            for o in msec.opts:
                if o.kind == "sec":
                    for inst in o.vals:
                        deeper += [x.d["n"] for x in inst.opts]
            pool = names + deeper
            hs = sorted(set(pool[int(f * len(pool)) % len(pool)] for f in hide)) if pool else []
            filters[id(msec)] = set(hs)
            s.add("filterk", h, k, len(hs), *[hx(n) for n in hs])
            k += 1
        opt_handles = []
        for (pos, opos) in case.get("pfs", []):
            h, msec, depth = secs[int(pos * len(secs)) % len(secs)]
            if not msec.opts:
                continue
            o = msec.opts[int(opos * len(msec.opts)) % len(msec.opts)]
            if o.kind == "sec" or id(o) in pfs:
                continue
            mode = len(pfs) % 3
            if mode == 0 or "|" in o.d["n"] or "=" in o.d["n"]:
                oh = nh[0]
                nh[0] += 1
                s.add("getopt", h, hx(o.d["n"]), oh)
                s.add("oprintfunc", oh, 1)            # cfg_opt_set_print_func on the option itself
            elif mode == 1 or h == 1:
                s.add("printfunc", h, hx(o.d["n"]), 1)   # cfg_set_print_func(section, name)
            else:
                # cfg_set_print_func(root, path): the path of this very instance (index / quoted title qualifiers)
                chain = paths.get(h)
                if chain is None or any(("|" in st or "=" in st) for st, _ in chain):
                    s.add("printfunc", h, hx(o.d["n"]), 1)
                else:
                    s.add("printfunc", 1, hx("|".join(q for _, q in chain) + "|" + o.d["n"]), 1)
            pfs[id(o)] = True
        P = Printer(filters, pfs)
        checks = []
        ind = case.get("indent", 0)
        e = []
        P.sec(m.root, None, 0, e)
        checks.append(("cfg_print", s.add("print", 1), e, 0))
        e = []
        P.sec(m.root, None, ind, e)
        checks.append(("cfg_print_indent(%d)" % ind, s.add("print", 1, ind), e, ind))
        for (pos, opos) in case.get("oprints", []):
            h, msec, depth = secs[int(pos * len(secs)) % len(secs)]
            if not msec.opts:
                continue
            o = msec.opts[int(opos * len(msec.opts)) % len(msec.opts)]
            oh = nh[0]
            nh[0] += 1
            s.add("getopt", h, hx(o.d["n"]), oh)
            e = []
            P.opt(o, None, 0, e)
            checks.append(("cfg_opt_print(%s)" % o.d["n"], s.add("oprint", oh), e, 0))
            e = []
            P.opt(o, None, ind, e)
            checks.append(("cfg_opt_print_indent(%s,%d)" % (o.d["n"], ind), s.add("oprint", oh, ind), e, ind))
        s.add("free", 1)
        r = get_ex("asan").run(s)
        t = by_index(r.trace)
        maxdepth = max(d for _, _, d in secs)
        inner_only = any(id(ms) in filters for h, ms, d in secs if d >= 1) and id(m.root) not in filters
        root_only = id(m.root) in filters and len(filters) == 1
        nt = (maxdepth >= 2 and (inner_only or root_only)) or bool(pfs) or (bool(ecl) and maxdepth >= 1)
        cl = ["depth%d" % min(maxdepth, 4)] + (["filter/inner-only"] if inner_only else []) + (["filter/root-only"] if root_only else []) + \
             (["filters>=2"] if len(filters) >= 2 else []) + (["print-callback"] if pfs else []) + sorted(set(ecl))
        sample = {"flags": flags, "text": text[:200], "filters": [sorted(v) for v in filters.values()], "callbacks": len(pfs)}
        if not r.clean:
            return Outcome(failure=Failure("die/%s" % r.death(), "child died: %s\n%s" % (r.death(), r.stderr.decode("latin-1")[:1200])),
                           classes=cl, nontrivial=nt, sample=sample)
        if t[ip]["rc"] != 0:
            return Outcome(failure=Failure("base-verdict", "model accepts %r, rc %d" % (text, t[ip]["rc"])), classes=cl)
        fail = None
        for name, idx, expected, base in checks:
            e = t[idx]
            if e.get("skipped"):
                continue
            out = bytes.fromhex(e["text"]).decode("latin-1")
            got = logical_lines(out)
            f = self.compare(name, expected, got, out)
            if f:
                fail = Failure(f[0], f[1] + "\nfilters %r callbacks %d\ntext %r" % ([sorted(v) for v in filters.values()], len(pfs), text))
                break
        if checks:
            sample["output"] = bytes.fromhex(t[checks[0][1]]["text"]).decode("latin-1")[:300]
        return Outcome(classes=cl, nontrivial=nt, failure=fail, sample=sample)

    @staticmethod
    def compare(name, expected, got, raw):
        unit = None
        if len(expected) != len(got):
            # find the first differing line
            i = 0
            while i < min(len(expected), len(got)) and expected[i][1] == got[i][1]:
                i += 1
            e = expected[i] if i < len(expected) else None
            g = got[i] if i < len(got) else None
            kind = "missing-line" if g is None or (e is not None and len(expected) > len(got)) else "extra-line"
            return ("%s/%s" % (kind, name.split("(")[0]),
                    "%s: %d lines expected, %d printed; first difference at line %d: expected %r, printed %r\noutput:\n%s" % (name, len(expected), len(got), i + 1, e, g, raw))
        for i, ((d, el), (ind, gl)) in enumerate(zip(expected, got)):
            if el != gl:
                return ("line-differs/%s" % name.split("(")[0], "%s line %d: expected %r, printed %r\noutput:\n%s" % (name, i + 1, el, gl, raw))
            if d == 0:
                if ind != 0:
                    return ("indent/%s" % name.split("(")[0], "%s line %d: depth 0 printed with indent %d" % (name, i + 1, ind))
            else:
                if ind % d != 0 or ind == 0 or (unit is not None and ind // d != unit):
                    return ("indent/%s" % name.split("(")[0], "%s line %d %r: depth %d printed with indent %d (unit %r)\noutput:\n%s" % (name, i + 1, gl, d, ind, unit, raw))
                unit = ind // d
        return None

    def strategy(self, tier):
        frac = st.floats(0, 0.999)

        @st.composite
        def case(draw):
            flags = draw(st.sampled_from([0, 0, F_COMMENTS, F_NOCASE]))
            if draw(st.integers(0, 2)) == 0:
                sc = "c19"
                opts = HAND[sc]
                toks = None
            else:
                opts = draw(schemas(nocase=bool(flags & F_NOCASE), allow_deprecated=True, max_depth=3, allow_simple=True))
                sc = opts
            toks = draw(gen_text.text_tokens(opts, flags, max_items=6, allow_unknown=False, bad_p=0.0))
            if flags & F_COMMENTS and draw(st.booleans()):
                toks = [["c", draw(st.sampled_from([" note", "x", " a */ b", ""])), "hash"], ["w", "\n"]] + toks
            c = {"schema": sc, "flags": flags, "tokens": toks,
                 "filters": draw(st.lists(st.tuples(frac, st.lists(frac, max_size=3)), max_size=4)),
                 "pfs": draw(st.lists(st.tuples(frac, frac), max_size=4)),
                 "early": draw(st.lists(st.tuples(frac, st.lists(frac, min_size=1, max_size=3), st.integers(0, 2)), max_size=2)),
                 "oprints": draw(st.lists(st.tuples(frac, frac), max_size=3)),
                 "indent": draw(st.integers(0, 3) | st.sampled_from([7, 8, 15, 16, 17, 31, 32, 33, 64, 100, 1000]))}
            if sc == "c19" and draw(st.booleans()):
                del c["tokens"]
                c["text"] = C19_TEXT
            return c
        return case()

    def run(self, r):
        r.run_hypothesis(20000 if r.tier == "quick" else 1000000)


PROP = C19()

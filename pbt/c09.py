"""C09 — setter, list and section API behaves as a simple typed store."""
import itertools

from hypothesis import strategies as st

from execclient import Script, hx, by_index
from model_lang import compare, dump_to_plain
from model_store import Store
from runner import Failure, Outcome, h64
from schema import (HAND, emit_schema, F_MULTI, F_TITLE, F_NO_TITLE_DUPES, F_NODEFAULT, F_LIST,
                    o_int, o_float, o_bool, o_str, o_list, o_sec, o_simple)

SCHEMA = [
    o_int("i", 5), o_str("s", "d"), o_list("int", "il", "{10, 20}"), o_list("str", "sl", None), o_list("float", "fl", "{1.5}"),
    o_bool("b", 0), o_int("ni", 0, F_NODEFAULT), o_float("f", "2.5"),
    o_sec("single", [o_int("x", 7), o_list("int", "zl", "{1, 2}")]),
    o_sec("tm", [o_int("x", 7), o_str("y", "why")], F_MULTI | F_TITLE),
    o_sec("tu", [o_int("x", 7)], F_MULTI | F_TITLE | F_NO_TITLE_DUPES),
    o_sec("multi", [o_int("x", 7), o_sec("in", [o_int("v", 1)], F_MULTI)], F_MULTI),
    o_simple("int", "si", 5), o_simple("str", "ss", "d"),          # CFG_SIMPLE_INT / CFG_SIMPLE_STR: value in the application's variable
]
HAND["c09"] = SCHEMA
STARTS = {
    "init": "",
    "parsed-a": "i = 3\nil += {30}\nsl = {p, q}\ntm a { x = 1 }\ntm b { y = bee }\nmulti { x = 1 in { } in { v = 2 } }\nmulti { x = 2 in { v = 3 } in { v = 4 } }\nsingle { zl += 3 }\n",
    "parsed-b": "il = {}\ns = x\nni = 4\nfl = {}\ntu t1 { }\ntu t2 { x = 2 }\ntm a { }\n",
    "parsed-c": "il = {1, 2, 3, 4}\nsl += z\ntm ab { }\ntm c { }\ntm a { x = 9 }\ntm b { }\ntm abc { }\nb = on\nf = 0.5\n",
}


def ops():
    """(name, script line, model call) — model call is a lambda on a Store returning the expected rc"""
    H = hx
    O = []

    def typed(cmd, kind, path, idx, raw, val):
        O.append(("%s %s[%d]=%r" % (cmd, path, idx, val), [cmd, 1, H(path), idx, H(raw)],
                  lambda m, path=path, kind=kind, idx=idx, val=val: m.set_typed(path, kind, idx, val)))
    typed("setint", "int", "i", 0, "3", 3)
    typed("setint", "int", "i", 1, "4", 4)                     # index beyond a scalar
    typed("setint", "int", "il", 0, "11", 11)
    typed("setint", "int", "il", 1, "21", 21)
    typed("setint", "int", "il", 2, "31", 31)
    typed("setint", "int", "il", 5, "51", 51)                  # gap: appends one element (model follows code)
    typed("setint", "int", "ni", 0, "8", 8)
    typed("setint", "int", "s", 0, "1", 1)                     # wrong type
    typed("setint", "int", "nosuch", 0, "1", 1)                # unknown name
    typed("setstr", "str", "s", 0, "v", "v")
    typed("setstr", "str", "sl", 0, "e0", "e0")
    typed("setstr", "str", "sl", 2, "e2", "e2")
    typed("setstr", "str", "i", 0, "x", "x")                   # wrong type
    # the value handed out by the getter given back to the setter of the same option
    def self_set(m, path, src, dst):
        _, o = m.getopt(path)
        return m.set_typed(path, "str", dst, o.vals[src] if (o is not None and src < len(o.vals)) else None)
    for path, src, dst in (("s", 0, 0), ("sl", 1, 0), ("sl", 0, 1), ("tm=b|y", 0, 0)):
        O.append(("setstr-self %s[%d]->[%d]" % (path, src, dst), ["setstr_self", 1, H(path), src, dst],
                  lambda m, path=path, src=src, dst=dst: self_set(m, path, src, dst)))
    # a set to the very value the option holds from its defaults still counts as a set
    typed("setint", "int", "i", 0, "5", 5)
    typed("setint", "int", "il", 0, "10", 10)
    typed("setfloat", "float", "fl", 0, "1.5", 1.5)
    typed("setfloat", "float", "f", 0, "2.5", 2.5)
    typed("setstr", "str", "s", 0, "d", "d")
    typed("setbool", "bool", "b", 0, "0", 0)
    def self_list(m, path, src):
        _, o = m.getopt(path)
        return m.setlist(path, "str", [o.vals[src] if (o is not None and src < len(o.vals)) else None], False)
    for path, src in (("sl", 1), ("sl", 0)):
        O.append(("setlist-self %s[%d]" % (path, src), ["setlist_self", 1, H(path), src], lambda m, path=path, src=src: self_list(m, path, src)))
    typed("setstr", "str", "s", 0, None, None)                 # NULL is a value a string option can hold
    typed("setstr", "str", "sl", 1, None, None)
    typed("setfloat", "float", "fl", 1, "0.25", 0.25)
    typed("setfloat", "float", "f", 0, "-1.5", -1.5)
    typed("setbool", "bool", "b", 0, "1", 1)
    typed("setint", "int", "single|x", 0, "70", 70)
    typed("setint", "int", "single|zl", 2, "9", 9)
    typed("setint", "int", "tm=a|x", 0, "71", 71)
    typed("setstr", "str", "tm=b|y", 0, "bz", "bz")
    typed("setint", "int", "multi=1|x", 0, "72", 72)
    for cmd, app in (("setlist", False), ("addlist", True)):
        for n in (0, 1, 3):
            vals = [100, -1, -2147483648][:n] if n != 1 else [-5]      # plain C ints, also negative ones, through the variadic call
            O.append(("%s il %r" % (cmd, vals), [cmd, 1, H("il"), "i", n] + [str(v) for v in vals],
                      lambda m, vals=vals, app=app: m.setlist("il", "int", vals, app)))
        O.append(("%s sl [u,v]" % cmd, [cmd, 1, H("sl"), "s", 2, H("u"), H("v")], lambda m, app=app: m.setlist("sl", "str", ["u", "v"], app)))
        O.append(("%s i (scalar)" % cmd, [cmd, 1, H("i"), "i", 1, "1"], lambda m, app=app: m.setlist("i", "int", [1], app)))
        O.append(("%s single|zl [8]" % cmd, [cmd, 1, H("single|zl"), "i", 1, "8"], lambda m, app=app: m.setlist("single|zl", "int", [8], app)))
    for path, texts in (("il", ["7"]), ("il", ["7", "8", "9"]), ("i", ["6"]), ("i", ["6", "7"]), ("sl", ["m", "n"]), ("fl", ["0.5", "2"]),
                        ("nosuch", ["1"]), ("b", ["yes"]), ("il", ["7", "bad"]), ("il", ["bad"]), ("fl", ["1", "2", "x"]), ("i", ["zz"]), ("fl", ["1e999"]), ("il", ["99999999999999999999"]),
                        ("i", ["-99999999999999999999"]), ("f", ["1e999"])):
        O.append(("setmulti %s %r" % (path, texts), ["setmulti", 1, H(path), len(texts)] + [H(t) for t in texts],
                  lambda m, path=path, texts=texts: m.setmulti(path, texts)))
    for sec, title in (("tm", "a"), ("tm", "new"), ("tm", "n2"), ("tu", "t1"), ("tu", "u9"), ("nosuch", "x"), ("i", "77"), ("il", "x"), ("tm", "")):
        O.append(("addtsec %s %s" % (sec, title), ["addtsec", 1, H(sec), H(title)],
                  lambda m, sec=sec, title=title: (m.addtsec(sec, title) is not None)))
    for sec, idx in (("tm", 0), ("tm", 1), ("tm", 2), ("multi", 0), ("multi", 5), ("single", 0), ("i", 0), ("nosuch", 0)):
        O.append(("rmnsec %s %d" % (sec, idx), ["rmnsec", 1, H(sec), idx], lambda m, sec=sec, idx=idx: m.rmnsec(sec, idx)))
    for sec, title in (("tm", "a"), ("tm", "b"), ("tm", "zz"), ("tu", "t2"), ("multi", "x"), ("nosuch", "x"), ("tm", "ab"), ("tm", ""), ("tu", "t")):
        O.append(("rmtsec %s %s" % (sec, title), ["rmtsec", 1, H(sec), H(title)], lambda m, sec=sec, title=title: m.rmtsec(sec, title)))
    typed("setint", "int", "multi=1|in=1|v", 0, "73", 73)
    typed("setint", "int", "multi=1|in=|v", 0, "74", 74)          # empty qualifier: does not resolve
    # "simple" options answer to the same calls as ordinary scalars
    typed("setint", "int", "si", 0, "3", 3)
    typed("setint", "int", "si", 1, "4", 4)                       # index beyond a scalar
    typed("setstr", "str", "ss", 0, "v", "v")
    typed("setstr", "str", "si", 0, "x", "x")                     # wrong type
    for path, texts in (("si", ["6"]), ("si", ["zz"]), ("ss", ["m"])):
        O.append(("setmulti %s %r" % (path, texts), ["setmulti", 1, H(path), len(texts)] + [H(t) for t in texts],
                  lambda m, path=path, texts=texts: m.setmulti(path, texts)))
    O.append(("addlist si (scalar)", ["addlist", 1, H("si"), "i", 1, "1"], lambda m: m.setlist("si", "int", [1], True)))
    # a text parsed in the middle of a history: sections removed before are created anew, with their declared defaults
    for text in ("single { x = 8 }\n", "single { }\ntm a { }\nmulti { }\n"):
        O.append(("parse %r" % text, ["parse_buf", 1, H(text)], lambda m, text=text: 0 if m.parse(text)["accept"] else 1))
    for path in ("tm=a", "tm=new", "tm", "multi=1", "multi=7", "single", "nosuch", "tu=t1", "multi=1|in=", "multi=1|in=1", "multi=0|in"):
        O.append(("rmsec %s" % path, ["rmsec", 1, H(path)], lambda m, path=path: m.rmsec(path)))
    return O


OPS = ops()


class C09:
    id = "C09"
    level = "exploration"
    variants = ("fast", "asan")
    rule = ("all sequences of length <= 3 (quick: from the initial state, <= 2 from three parsed states; thorough: <= 3, and <= 4 from the initial state over the first 64 calls) over an alphabet of %d concrete calls (typed setters at "
            "indices 0/1/size/beyond on scalars, lists, CFG_SIMPLE_* options, nested and missing options and wrong types; setlist/addlist with 0-3 "
            "values; setmulti; addtsec new/existing; rmnsec/rmtsec/rmsec present/missing; two texts parsed mid-history) from the initial state and three "
            "parsed states, plus Hypothesis sequences up to length 30. Oracle: abstract store model; after every call the "
            "return value and the full tree (sizes, values, titles in order, MODIFIED of value options). Non-trivial = two "
            "calls hit the same option or a remove follows an add; distinct = distinct (start, sequence)" % len(OPS))
    assumptions = ["model follows code (DESIGN 4.3): index beyond the end appends one element; a typed set on a pristine "
                   "default list discards the defaults first; cfg_addtsec on an existing title returns NULL",
                   "grey: cfg_addtsec on sections without TITLE, titles differing only in case under NOCASE (not generated)"]

    def script(self, subs):
        s = Script()
        emit_schema(s, 0, SCHEMA)
        marks = []
        for start, seq in subs:
            s.add("newcase")
            s.add("init", 1, 0, 0)
            s.add("parse_buf", 1, hx(STARTS[start]))
            mk = [(None, s.add("dump", 1))]
            for oi in seq:
                ic = s.add(*OPS[oi][1])
                mk.append((ic, s.add("dump", 1)))
            marks.append(mk)
        s.add("newcase")
        return s, marks

    def judge(self, start, seq, mk, t):
        m = Store(SCHEMA, 0)
        r = m.parse(STARTS[start])
        assert r["accept"]
        if mk[0][1] not in t:
            return "no-result", "no result"
        d = compare(m.root, dump_to_plain(t[mk[0][1]]["tree"]), flags_too=False)
        if d:
            return "start-state", "start %s: %s" % (start, d)
        for step, oi in enumerate(seq):
            name, line, fn = OPS[oi]
            ic, idd = mk[step + 1]
            if ic not in t or idd not in t:
                return "no-result", "no result"
            try:
                exp = fn(m)
            except ValueError:
                return None, None
            e = t[ic]
            if "rc" in e:
                got = e["rc"]
            else:
                got = bool(e.get("p"))
            if got != exp:
                return "rc/%s" % name.split(" ")[0], "start %s, sequence %r: call %d (%s) returned %r, model says %r" % (
                    start, [OPS[k][0] for k in seq], step, name, got, exp)
            d = compare(m.root, dump_to_plain(t[idd]["tree"]), flags_too=True)
            if d:
                cls = "modified-flag" if "MODIFIED" in d else ("values" if "values in" in d else "value")
                return "state/%s/%s" % (name.split(" ")[0], cls), "start %s, sequence %r: after call %d (%s): %s" % (
                    start, [OPS[k][0] for k in seq], step, name, d)
        return None, None

    def check_case(self, case, get_ex):
        subs = [(s, list(q)) for s, q in case["subs"]]
        single = len(subs) == 1
        s, marks = self.script(subs)
        r = get_ex("asan" if single else "fast").run(s, cpu=30, wall=120)
        t = by_index(r.trace)
        fails, keys, cc = [], [], {}
        crashed = False
        for (start, seq), mk in zip(subs, marks):
            names = [OPS[k][0] for k in seq]
            targets = [n.split(" ")[1].split("[")[0].split("|")[0].split("=")[0] for n in names]
            nt = len(set(targets)) < len(targets) or any(n.startswith("rm") for n in names[1:]) and any(n.startswith("add") for n in names)
            if nt:
                keys.append(h64([start, seq]))
            cc["len%d" % len(seq)] = cc.get("len%d" % len(seq), 0) + 1
            sig, msg = self.judge(start, seq, mk, t)
            if sig is None:
                continue
            if sig == "no-result" and not single:
                if crashed:
                    continue
                crashed = True
            if not single:
                o1 = self.check_case({"subs": [[start, seq]]}, get_ex)
                if o1.failure:
                    fails.append(o1.failure)
            else:
                if sig == "no-result":
                    sig, msg = "die/%s/%s" % (r.death(), (names[-1].split(" ")[0] if names else "")), "sequence %r\n%s" % (names, r.stderr.decode("latin-1")[:1500])
                fails.append(Failure(sig, msg, {"subs": [[start, seq]]}))
        mid = subs[len(subs) // 2]
        return Outcome(count=len(subs), keys=keys, class_counts=cc, nontrivial=bool(keys), failure=fails[0] if fails else None,
                       failures=fails[1:8], sample={"start": mid[0], "sequence": [OPS[k][0] for k in mid[1]]})

    def run(self, r):
        subs = []
        for start in STARTS:
            # quick: depth 3 from the initial and the first parsed state, depth 2 from the others; thorough: depth 3 (4 from init)
            depth = 3 if (r.tier == "thorough" or start == "init") else 2
            if r.tier == "thorough" and start == "init":
                depth = 4
            for d in range(1, depth + 1):
                # depth 4 (thorough, from the initial state) over the first 64 calls of the alphabet only: 17 million sequences
                alpha = range(len(OPS)) if d <= 3 else range(64)
                for seq in itertools.product(alpha, repeat=d):
                    subs.append([start, list(seq)])
        B = 150
        r.run_cases([{"subs": subs[i:i + B]} for i in range(0, len(subs), B)], chunksize=2)
        r.exhaustive = True
        r.run_hypothesis(3000 if r.tier == "quick" else 100000)

    def strategy(self, tier):
        @st.composite
        def case(draw):
            subs = []
            for _ in range(6):
                subs.append([draw(st.sampled_from(sorted(STARTS))), draw(st.lists(st.integers(0, len(OPS) - 1), min_size=3, max_size=30))])
            return {"subs": subs}
        return case()


PROP = C09()

"""C16 — a context owns a private copy of its schema and shares nothing."""
import itertools

from hypothesis import strategies as st

import gen_text
from execclient import Script, hx, by_index
from model_lang import Model, compare, dump_to_plain
from runner import Failure, Outcome, h64
from schema import (HAND, schemas, emit_schema, walk, F_NOCASE, F_COMMENTS, F_MULTI, F_TITLE, F_LIST, F_KEYSTRVAL, CB_COMMENT, CB_VALID,
                    o_int, o_str, o_list, o_sec, o_func, o_ptr, o_float, o_bool)

HAND["c16"] = [
    o_int("i", 5, 0, CB_COMMENT), o_str("s", "string default", 0, CB_COMMENT), o_list("str", "sl", "{\"one\", two}", 0, CB_COMMENT),
    o_list("int", "il", "{1, 2, 3}"), o_float("f", "2.5"),
    o_sec("tm", [o_int("x", 7), o_str("y", "why", 0, CB_COMMENT), o_list("str", "zl", "{p, q}"), dict(o_ptr("pq"), d="\"ptr default\""),
                 o_sec("deep", [o_str("z", "zz"), o_list("int", "dl", "{9}"), dict(o_ptr("pw", F_LIST), d="{u, v}"),
                                o_sec("deepest", [o_str("w", "ww"), dict(o_ptr("pz"), d="deepest_default")], F_MULTI)], F_MULTI | F_TITLE)],
          F_MULTI | F_TITLE),
    o_sec("single", [o_str("y", "single y"), o_sec("in", [o_list("str", "l", "{a}")], F_MULTI)]),
    o_sec("kv", [o_str("known", "k")], F_KEYSTRVAL | F_MULTI | F_TITLE), o_func("fn"),
]
POISON_TEXT = ("tm a { deep d1 { deepest { } deepest { w = x } } deep d2 { } }\ntm b { x = 1 }\ntm c { deep d3 { deepest { } } zl += r }\n"
               "single { in { } in { l += b } in { } }\nkv t { k1 = v1 }\nkv u { known = z k2 = v2 }\n")

# operation lists for the interleaving half (each op: script line with the context handle as first argument '@')
OPS_POOL = [
    ["parse_buf", "@", hx("i = 11\nsl += three\ntm a { x = 2 }\n")],
    ["parse_buf", "@", hx("tm a { y = changed }\ntm n { }\nkv t { key = val }\n")],
    ["parse_buf", "@", hx("# annotated\ns = \"from text\"\nil = {}\n")],
    ["setint", "@", hx("i"), 0, hx("42")],
    ["setstr", "@", hx("s"), 0, hx("api")],
    ["setstr", "@", hx("sl"), 1, hx("slot1")],
    ["addlist", "@", hx("il"), "i", 2, "7", "8"],
    ["setmulti", "@", hx("sl"), 2, hx("m1"), hx("m2")],
    ["setcomment", "@", hx("i"), hx("api annotation")],
    ["setcomment", "@", hx("sl"), hx("list annotation")],
    ["printfunc", "@", hx("i"), 1],
    ["printfunc", "@", hx("tm|x"), 1],
    ["setvalidate", "@", hx("i"), 1],
    ["setvalidate", "@", hx("tm|x"), 1],
    ["addtsec", "@", hx("tm"), hx("added")],
    ["rmtsec", "@", hx("tm"), hx("a")],
    ["parse_buf", "@", hx("single { y = s2 in { l = {z} } }\n")],
    ["searchpath", "@", hx("/nonexistent/c16/dir")],
    ["parse_buf", "@", hx("tm a { }\ntm b { }\ntm a { x = 5 }\n")],
    ["findfile", "@", hx("c16_nofile.conf")],
    # answers that depend on the context's own CFGF_NOCASE
    ["parse_buf", "@", hx("TM a { X = 6 }\nI = 12\n")],
    ["rmtsec", "@", hx("tm"), hx("A")],
    ["gettsec", "@", hx("tm"), hx("ADDED"), 55],
    ["getint", "@", hx("I"), 0],
    ["addtsec", "@", hx("tm"), hx("A")],
]
INST_OPS = [
    ["setint", "@", hx("tm=%s|x"), 0, hx("77")],
    ["setstr", "@", hx("tm=%s|y"), 0, hx("inst")],
    ["addlist", "@", hx("tm=%s|zl"), "s", 1, hx("more")],
    ["setcomment", "@", hx("tm=%s|y"), hx("inst annotation")],
    ["printfunc", "@", hx("tm=%s|x"), 1],
    ["addtsec", "@", hx("tm=%s|deep"), hx("nd")],
    ["setmulti", "@", hx("tm=%s|zl"), 1, hx("only")],
]


def bind(op, handle, inst=None):
    out = []
    for x in op:
        if x == "@":
            out.append(handle)
        elif isinstance(x, str) and x.startswith("x") and inst is not None and "2573" in x:
            # path template with %s -> instance title
            raw = bytes.fromhex(x[1:]).decode()
            out.append(hx(raw.replace("%s", inst)))
        else:
            out.append(x)
    return out


def strip_ptr(e):
    """trace entry without addresses / line index"""
    # errno is only meaningful where a call documents it; the executor carries it from call to call like a real program
    out = {k: v for k, v in e.items() if k not in ("i", "p", "errno")}
    if "cb" in out:
        # callback invocations without the executor's process-wide sequence number
        out["cb"] = [{k: v for k, v in c.items() if k != "seq"} for c in out["cb"]]
    return out


class C16:
    id = "C16"
    level = "exploration"
    variants = ("asan",)
    rule = ("(a) every schema (hand-built and random; names, string defaults, parsed defaults, declared annotations, nested "
            "sub-option arrays three deep, all heap allocated) is overwritten with 0xA5 and freed right after cfg_init (ASan "
            "traps any later read); then texts create the 1st..3rd instance of nested multi sections, every default is read "
            "and the context is printed; oracle: no sanitizer report and the tree equals the language model (declared sub-"
            "options and defaults in every new instance, declared annotations). (b) two contexts from the same declarations, "
            "and two instances of one multi section, driven by all interleavings (total length <= 6) of two operation lists "
            "(parse, setters, setcomment, print-callback and validate registration, free-form keys; directed: print filters on one instance, siblings compared in the print of the parent); oracle: every step's "
            "result and the acting context's/instance's dump and final print equal its solo run. Non-trivial = instance "
            "created after poisoning at depth >= 2, or an interleaving alternating at least twice; distinct = case hashes")
    assumptions = ["function pointers in declarations (callbacks) are not 'declaration memory' and stay valid",
                   "use of freed declaration memory is observed through ASan; silent reads of stale but unreused memory are "
                   "made visible by the 0xA5 overwrite before the free"]

    # (a) ------------------------------------------------------------------------------------------------
    def check_poison(self, case, get_ex):
        schema = HAND[case["schema"]] if isinstance(case["schema"], str) else case["schema"]
        flags = case["flags"]
        text = case["text"] if "text" in case else gen_text.render(case["tokens"])
        m = Model(schema, flags)
        exp = m.parse(text)
        if exp.get("grey"):
            return Outcome(classes=["grey-base"], sample={"text": text[:200]})
        s = Script()
        emit_schema(s, 0, schema)
        sum0 = s.add("schemasum", 0)
        s.add("init", 1, 0, flags)
        s.add("init", 2, 0, flags ^ F_NOCASE)
        s.add("parse_buf", 2, hx(text))
        s.add("free", 2)
        sum1 = s.add("schemasum", 0)        # creating and using a context leaves the caller's declaration untouched
        s.add("poison", 0)
        ip = s.add("parse_buf", 1, hx(text))
        idd = s.add("dump", 1)
        s.add("print", 1)
        ip2 = s.add("parse_buf", 1, hx(text))
        s.add("dump", 1)
        # remove every default-created top-level section and have the parser create it anew: the declaration of its
        # sub-options must still be there (and must not be the caller's poisoned memory)
        m2 = Model(schema, flags)
        singles = [o for o in m2.root.opts if o.kind == "sec" and not (o.d["f"] & (F_MULTI | F_KEYSTRVAL)) and len(o.vals) == 1
                   and not (o.d["f"] & F_TITLE) and o.d["n"] and "|" not in o.d["n"] and "=" not in o.d["n"]]
        irm = []
        if exp["accept"] and singles:
            m2.parse(text)
            m2.parse(text)
            redo = ""
            for o in [x for x in m2.root.opts if any(x.d is y.d for y in singles)]:
                irm.append(s.add("rmsec", 1, hx(o.d["n"])))
                o.vals = []
                redo += "'%s' { }\n" % o.d["n"].replace("\\", "\\\\").replace("'", "\\'")
            e3 = m2.parse(redo)
            ip3 = s.add("parse_buf", 1, hx(redo))
            id3 = s.add("dump", 1)
        s.add("free", 1)
        r = get_ex("asan").run(s)
        t = by_index(r.trace)
        deep = any(mk["level"] >= 2 for mk in m.marks)
        cl = ["poison", "depth>=2" if deep else "shallow"]
        fail = None
        if not r.clean:
            d = r.death()
            fr = [f for f in r.frames() if f.startswith("cfg_")]
            fail = Failure("poison/die/%s/%s" % (d, fr[0] if fr else "?"), "after the declaration memory was freed: %s\n%s" % (d, r.stderr.decode("latin-1")[:1800]))
        elif t[sum0]["sum"] != t[sum1]["sum"]:
            fail = Failure("declaration-written", "cfg_init / parsing changed the caller's option declaration (checksum %s -> %s)" % (t[sum0]["sum"], t[sum1]["sum"]))
        elif exp["accept"] != (t[ip]["rc"] == 0):
            fail = Failure("poison/verdict", "text %r: model %s, rc %d" % (text, exp["accept"], t[ip]["rc"]))
        elif exp["accept"]:
            tree = dump_to_plain(t[idd]["tree"])
            d = compare(m.root, tree)
            if d:
                fail = Failure("poison/tree", "text %r: %s" % (text, d))
            else:
                d = self.annotations(m.root, tree)
                if d:
                    fail = Failure("poison/declared-annotation", d)
            if fail is None and irm and not e3.get("grey") and not m2.grey:
                if t[ip3]["rc"] != (0 if e3["accept"] else 1):
                    fail = Failure("recreated-section/verdict", "after removing %d sections, text %r: rc %d, model %s" % (len(irm), redo, t[ip3]["rc"], e3["accept"]))
                elif e3["accept"]:
                    d = compare(m2.root, dump_to_plain(t[id3]["tree"]))
                    if d:
                        fail = Failure("recreated-section/tree", "sections removed and created again by %r: %s" % (redo, d))
        return Outcome(classes=cl, nontrivial=deep and exp["accept"], failure=fail, sample={"flags": flags, "text": text[:300]})

    def annotations(self, msec, dsec, path=""):
        for mo, do in zip(msec.opts, dsec["opts"]):
            if mo.kind == "sec":
                for i, (mv, dv) in enumerate(zip(mo.vals, do["v"])):
                    r = self.annotations(mv, dv, "%s/%s[%d]" % (path, mo.d["n"], i))
                    if r:
                        return r
            elif (mo.d.get("cb", 0) & CB_COMMENT) and mo.comment == "default annotation" and do["c"] != "default annotation":
                return "%s/%s: declared annotation reads %r" % (path, mo.d["n"], do["c"])
        return None

    # (b) ------------------------------------------------------------------------------------------------
    def check_interleave(self, case, get_ex):
        A = [OPS_POOL[k] for k in case["a"]] if case["mode"] == "ctx" else [INST_OPS[k] for k in case["a"]]
        B = [OPS_POOL[k] for k in case["b"]] if case["mode"] == "ctx" else [INST_OPS[k] for k in case["b"]]
        order = case["order"]           # string of 'a'/'b'
        flags = F_COMMENTS
        fl = case.get("flags") or [F_COMMENTS, F_COMMENTS]      # context flags of a and b (contexts mode)
        s = Script()
        emit_schema(s, 0, HAND["c16"])
        marks = {}

        def target(who):
            if case["mode"] == "ctx":
                return (1 if who == "a" else 2), None
            return 1, ("a" if who == "a" else "b")

        def observe(who, tag):
            h, inst = target(who)
            if case["mode"] == "ctx":
                return s.add("dump", h)
            k = s.add("getsec", 1, hx("tm=%s" % inst), 50 if who == "a" else 51)
            return s.add("dump", 50 if who == "a" else 51)

        def setup(name):
            s.add("newcase")
            if case["mode"] == "ctx":
                # a solo run has its own context only: the sibling (created first, from the same declaration) must not matter
                if name != "solo-b":
                    s.add("init", 1, 0, fl[0])
                if name != "solo-a":
                    s.add("init", 2, 0, fl[1])
            else:
                s.add("init", 1, 0, flags)
                s.add("parse_buf", 1, hx("tm a { }\ntm b { }\n"))

        def run_seq(name, seq):
            setup(name)
            res = []
            for who, op in seq:
                h, inst = target(who)
                ic = s.add(*bind(op, h, inst))
                res.append((who, ic, observe(who, name)))
            fin = {}
            for who in ("a", "b"):
                h, inst = target(who)
                if case["mode"] == "ctx":
                    if name in ("mixed", "solo-" + who):
                        fin[who] = s.add("print", h)
                else:
                    s.add("getsec", 1, hx("tm=%s" % inst), 52)
                    fin[who] = s.add("print", 52)
            marks[name] = (res, fin)
        run_seq("solo-a", [("a", op) for op in A])
        run_seq("solo-b", [("b", op) for op in B])
        ia = ib = 0
        seq = []
        for ch in order:
            if ch == "a":
                seq.append(("a", A[ia]))
                ia += 1
            else:
                seq.append(("b", B[ib]))
                ib += 1
        run_seq("mixed", seq)
        s.add("newcase")
        r = get_ex("asan").run(s)
        t = by_index(r.trace)
        alternations = sum(1 for x, y in zip(order, order[1:]) if x != y)
        cl = ["interleave/" + case["mode"], "alternations%d" % min(alternations, 3)]
        nt = alternations >= 2
        sample = {"mode": case["mode"], "order": order, "a": [o[0] for o in A], "b": [o[0] for o in B]}
        if not r.clean:
            d = r.death()
            return Outcome(failure=Failure("interleave/die/%s" % d, "%s\n%s" % (d, r.stderr.decode("latin-1")[:1500])), classes=cl, nontrivial=nt, sample=sample)
        solo = {"a": marks["solo-a"], "b": marks["solo-b"]}
        pos = {"a": 0, "b": 0}
        fail = None
        for who, ic, idd in marks["mixed"][0]:
            sres, sfin = solo[who]
            _, sic, sidd = sres[pos[who]]
            pos[who] += 1
            if strip_ptr(t[ic]) != strip_ptr(t[sic]):
                fail = Failure("interleave/%s/result" % case["mode"], "step %s of %s: result %r, solo run %r (order %s)" % (
                    t[ic].get("c"), who, strip_ptr(t[ic]), strip_ptr(t[sic]), order))
                break
            if t[idd].get("tree") != t[sidd].get("tree"):
                fail = Failure("interleave/%s/state" % case["mode"], "after step %s of %s (order %s) its dump differs from the solo run:\n%r\nvs solo\n%r" % (
                    t[ic].get("c"), who, order, t[idd].get("tree"), t[sidd].get("tree")))
                break
        if fail is None:
            for who in ("a", "b"):
                if t[marks["mixed"][1][who]].get("text") != t[solo[who][1][who]].get("text"):
                    fail = Failure("interleave/%s/print" % case["mode"], "final print of %s differs from its solo run (order %s)" % (who, order))
                    break
        return Outcome(classes=cl, nontrivial=nt, failure=fail, sample=sample)

    def check_privacy(self, case, get_ex):
        """a print callback / annotation / value set on one instance of a multi section must not show in a sibling created later"""
        s = Script()
        emit_schema(s, 0, HAND["c16"])
        s.add("init", 1, 0, F_COMMENTS)
        s.add("addtsec", 1, hx("tm"), hx("a"), 40)
        for line in case["on_a"]:
            s.add(*line)
        s.add("addtsec", 1, hx("tm"), hx("b"), 41)
        s.add("parse_buf", 1, hx("tm c { }\n"))
        s.add("getsec", 1, hx("tm=c"), 42)
        ib = s.add("print", 41)
        ic = s.add("print", 42)
        iw = s.add("print", 1)          # the siblings as they appear in the print of the whole context
        s.add("init", 2, 0, F_COMMENTS)
        s.add("addtsec", 2, hx("tm"), hx("b"), 43)
        ir = s.add("print", 43)
        s.add("init", 3, 0, F_COMMENTS)
        for ttl in ("a", "b"):
            s.add("addtsec", 3, hx("tm"), hx(ttl), 44)
        s.add("parse_buf", 3, hx("tm c { }\n"))
        iwr = s.add("print", 3)
        s.add("free", 3)
        s.add("free", 1)
        s.add("free", 2)
        r = get_ex("asan").run(s)
        t = by_index(r.trace)
        if not r.clean:
            return Outcome(failure=Failure("privacy/die/%s" % r.death(), r.stderr.decode("latin-1")[:1500]), classes=["privacy"])
        ref = t[ir]["text"]
        fail = None
        for nm, idx in (("b", ib), ("c", ic)):
            if t[idx]["text"] != ref:
                fail = Failure("privacy/sibling-created-later-differs", "after %r on instance a, the later instance %s prints %r; a fresh instance prints %r" % (
                    case["on_a"], nm, bytes.fromhex(t[idx]["text"]).decode("latin-1"), bytes.fromhex(ref).decode("latin-1")))
                break
        if fail is None:
            import re
            whole, wref = (bytes.fromhex(t[k]["text"]).decode("latin-1") for k in (iw, iwr))
            cut = lambda x: x[re.search(r'^tm "?b"? \{', x, re.M).start():]
            if cut(whole) != cut(wref):
                fail = Failure("privacy/siblings-differ-in-print-of-parent", "after %r on instance a, the print of the context shows the later instances as %r; without: %r" % (
                    case["on_a"], cut(whole), cut(wref)))
        return Outcome(classes=["privacy"], nontrivial=True, failure=fail, sample={"on_a": case["on_a"]})

    def check_private_path(self, case, get_ex):
        """a search directory added to one section instance (from a callback running inside it) is that instance's own"""
        from c02 import fixture_dir
        import os
        base = os.path.join(fixture_dir(), "c16p")
        schema = [o_sec("tm", [o_int("x", 7), o_func("adddir", "adddir"), o_func("include", "include")], F_MULTI | F_TITLE),
                  o_func("include", "include"), o_int("top", 0)]
        sib = case["sibling"]
        res = []
        for with_a in (True, False):
            s = Script()
            emit_schema(s, 0, schema)
            s.add("mkdir", hx(base))
            s.add("mkdir", hx(os.path.join(base, "priv")))
            s.add("mkfile", hx(os.path.join(base, "priv", "only.conf")), hx("x = 42\n"))
            s.add("mkfile", hx(os.path.join(base, "priv", "top.conf")), hx("top = 1\n"))
            s.add("cwd", hx(base))
            s.add("init", 1, 0, 0)
            first = "tm a { adddir(\"%s\") x = 1 }\n" % os.path.join(base, "priv") if with_a else "tm a { x = 1 }\n"
            ip = s.add("parse_buf", 1, hx(first + sib))
            idd = s.add("dump", 1)
            ip2 = s.add("parse_file", 1, hx("top.conf"))
            s.add("free", 1)
            r = get_ex("asan").run(s)
            res.append((r, by_index(r.trace), ip, idd, ip2))
        (r1, t1, ip, idd, ip2), (r2, t2, jp, jdd, jp2) = res
        if not (r1.clean and r2.clean):
            d = (r1 if not r1.clean else r2)
            return Outcome(failure=Failure("private-path/die/%s" % d.death(), d.stderr.decode("latin-1")[:1500]), classes=["private-path"], nontrivial=True)
        fail = None
        if t1[ip]["rc"] != t2[jp]["rc"] or t1[ip2]["rc"] != t2[jp2]["rc"]:
            fail = Failure("private-path/sibling-or-parent-sees-it", "with a search directory added inside instance a: text rc %d, later cfg_parse(\"top.conf\") rc %d; "
                           "without: %d / %d (sibling text %r)" % (t1[ip]["rc"], t1[ip2]["rc"], t2[jp]["rc"], t2[jp2]["rc"], sib))
        return Outcome(classes=["private-path"], nontrivial=True, failure=fail, sample={"sibling": sib})

    def privacy_cases(self):
        H = hx
        return [{"kind": "privacy", "on_a": ops} for ops in (
            [["printfunc", 1, H("tm|x"), 1]], [["printfunc", 1, H("tm=a|x"), 1]], [["printfunc", 40, H("x"), 1]],
            [["printfunc", 1, H("tm|zl"), 1]], [["setcomment", 1, H("tm|y"), H("only a")]], [["setcomment", 40, H("x"), H("only a")]],
            [["setstr", 1, H("tm|y"), 0, H("only a")]], [["addlist", 40, H("zl"), "s", 1, H("only a")]],
            [["addtsec", 40, H("deep"), H("only-a")]], [["setmulti", 1, H("tm=a|zl"), 2, H("m1"), H("m2")]],
            [["printfunc", 1, H("tm|x"), 1], ["setcomment", 1, H("tm|x"), H("c")], ["setint", 1, H("tm|x"), 0, H("99")]],
            # a print filter of one instance is that instance's own
            [["filterk", 40, 0, 1, H("x")]], [["filterk", 40, 1, 2, H("y"), H("zl")]], [["filterk", 40, 2, 1, H("deep")], ["addtsec", 40, H("deep"), H("only-a")]],
            [["filterk", 1, 3, 1, H("i")], ["filterk", 40, 4, 2, H("x"), H("y")]])]

    def check_case(self, case, get_ex):
        if case.get("kind") == "privacy":
            return self.check_privacy(case, get_ex)
        if case.get("kind") == "private-path":
            return self.check_private_path(case, get_ex)
        if case.get("kind") == "interleave":
            return self.check_interleave(case, get_ex)
        return self.check_poison(case, get_ex)

    def interleave_cases(self, tier):
        out = []
        import random
        rnd = random.Random(16)
        pairs = []
        n = len(OPS_POOL)
        for _ in range(250 if tier == "quick" else 2500):
            la = rnd.randint(1, 3)
            lb = rnd.randint(1, 3)
            pairs.append(("ctx", [rnd.randrange(n) for _ in range(la)], [rnd.randrange(n) for _ in range(lb)]))
        # directed: a search path, then every operation of the pool, then a use of the search path
        sp = [k for k, o in enumerate(OPS_POOL) if o[0] == "searchpath"][0]
        ff = [k for k, o in enumerate(OPS_POOL) if o[0] == "findfile"][0]
        for k in range(n):
            pairs.append(("ctx", [sp, k, ff], [rnd.randrange(n)]))
        ni = len(INST_OPS)
        for _ in range(120 if tier == "quick" else 1200):
            la = rnd.randint(1, 3)
            lb = rnd.randint(1, 3)
            pairs.append(("inst", [rnd.randrange(ni) for _ in range(la)], [rnd.randrange(ni) for _ in range(lb)]))
        for mode, a, b in pairs:
            for comb in itertools.combinations(range(len(a) + len(b)), len(a)):
                order = "".join("a" if k in comb else "b" for k in range(len(a) + len(b)))
                for fl in (([F_COMMENTS, F_COMMENTS],) if mode == "inst" else
                           ([F_COMMENTS, F_COMMENTS], [F_COMMENTS | F_NOCASE, F_COMMENTS], [F_COMMENTS, F_COMMENTS | F_NOCASE])):
                    out.append({"kind": "interleave", "mode": mode, "a": a, "b": b, "order": order, "flags": fl})
        return out

    def strategy(self, tier):
        @st.composite
        def case(draw):
            flags = draw(st.sampled_from([0, F_COMMENTS, F_NOCASE]))
            if draw(st.integers(0, 3)) == 0:
                return {"schema": "c16", "flags": flags, "text": POISON_TEXT}
            opts = draw(schemas(nocase=bool(flags & F_NOCASE), allow_deprecated=True))
            # declared annotations on some options
            for _, o in walk(opts):
                if o["k"] in ("int", "str", "float", "bool") and draw(st.integers(0, 4)) == 0:
                    o["cb"] = o.get("cb", 0) | CB_COMMENT
            toks = draw(gen_text.text_tokens(opts, flags, max_items=8, allow_unknown=False, bad_p=0.0))
            return {"schema": opts, "flags": flags, "tokens": toks}
        return case()

    def run(self, r):
        r.run_cases([{"schema": "c16", "flags": f, "text": POISON_TEXT} for f in (0, F_COMMENTS)] +
                    [{"schema": k, "flags": 0, "text": ""} for k in ("basic", "sections", "funcs", "ptrs", "keyval", "deprecated", "callbacks", "mixed")], chunksize=1)
        r.run_cases(self.privacy_cases(), chunksize=1)
        r.run_cases([{"kind": "private-path", "sibling": sib} for sib in (
            "tm b { include(\"only.conf\") }\n", "tm b { }\ninclude(\"top.conf\")\n", "tm a { include(\"only.conf\") }\n",
            "tm b { x = 2 }\ntm c { include(\"only.conf\") }\n")], chunksize=1)
        r.run_cases(self.interleave_cases(r.tier), chunksize=10)
        r.run_hypothesis(20000 if r.tier == "quick" else 500000)


PROP = C16()

"""Client for the cfgx fork server, and the case-script builder."""
import json
import os
import subprocess

VERIF = os.path.dirname(os.path.dirname(os.path.abspath(__file__)))

ASAN_ENV = {
    "ASAN_OPTIONS": "detect_leaks=0:abort_on_error=0:exitcode=99:allocator_may_return_null=1:"
                    "detect_stack_use_after_return=0:handle_abort=1:symbolize=1",
    "UBSAN_OPTIONS": "print_stacktrace=1:halt_on_error=1:exitcode=98",
    "LC_ALL": "C",
    "PATH": "/usr/bin:/bin",
    "HOME": "/root",
}


def hx(b):
    """encode an argument: None -> ~ ; bytes/str -> x<hex>"""
    if b is None:
        return "~"
    if isinstance(b, str):
        b = b.encode("latin-1")
    return "x" + b.hex()


def unhx(v):
    if v is None:
        return None
    return bytes.fromhex(v)


class Result:
    __slots__ = ("status", "code", "trace", "stdout", "stderr", "stdout_total", "raw")

    def __init__(self, status, code, trace, stdout, stderr, stdout_total):
        self.status = status        # 'exit' | 'sig' | 'timeout'
        self.code = code
        self.trace = trace          # list of dicts
        self.stdout = stdout
        self.stderr = stderr
        self.stdout_total = stdout_total

    @property
    def clean(self):
        """the child ran the whole script and exited normally"""
        return self.status == "exit" and self.code == 0 and bool(self.trace) and self.trace[-1].get("c") == "done"

    def death(self):
        """short classification of an abnormal end, None when clean"""
        if self.clean:
            return None
        err = self.stderr.decode("latin-1", "replace")
        kind = "%s:%d" % (self.status, self.code)
        if "AddressSanitizer" in err:
            import re
            m = re.search(r"AddressSanitizer: ([A-Za-z0-9_-]+)", err)
            kind = "asan:" + (m.group(1) if m else "?")
        elif "runtime error:" in err:
            kind = "ubsan"
        elif self.status == "sig" and self.code == 24:
            kind = "cpu-limit"
        elif self.status == "timeout":
            kind = "wall-timeout"
        elif self.status == "sig" and self.code == 6:
            kind = "abort"
        elif self.status == "exit" and self.code not in (0, 98, 99):
            kind = "exit:%d" % self.code
        return kind

    def frames(self):
        """libconfuse frames of a sanitizer report (function names)"""
        import re
        err = self.stderr.decode("latin-1", "replace")
        return re.findall(r"#\d+ 0x[0-9a-f]+ in (\w+) ", err)


class Executor:
    def __init__(self, build_dir, variant="asan", cpu=5, wall=30):
        self.exe = os.path.join(build_dir, variant, "cfgx")
        self.cpu = cpu
        self.wall = wall
        self.proc = None
        self.cases = 0

    def start(self):
        env = dict(ASAN_ENV)
        self.proc = subprocess.Popen([self.exe, "--server"], stdin=subprocess.PIPE, stdout=subprocess.PIPE,
                                     stderr=subprocess.DEVNULL, env=env, cwd="/", close_fds=True)

    def close(self):
        if self.proc:
            try:
                self.proc.stdin.close()
                self.proc.wait(timeout=5)
            except Exception:
                self.proc.kill()
            self.proc = None

    def run(self, script, cpu=None, wall=None):
        if isinstance(script, Script):
            script = script.text()
        if isinstance(script, str):
            script = script.encode("latin-1")
        if self.proc is None or self.proc.poll() is not None:
            self.start()
        self.cases += 1
        rec = os.environ.get("VERIF_RECORD_SCRIPTS")
        if rec and self.cases % int(os.environ.get("VERIF_RECORD_EVERY", "50")) == 1 and len(script) < 200000:
            os.makedirs(rec, exist_ok=True)
            with open(os.path.join(rec, "%d_%d.script" % (os.getpid(), self.cases)), "wb") as fh:
                fh.write(script)
        hdr = ("%d %d %d\n" % (len(script), cpu or self.cpu, wall or self.wall)).encode()
        try:
            self.proc.stdin.write(hdr + script)
            self.proc.stdin.flush()
            line = self.proc.stdout.readline()
            parts = line.split()
            status, code = parts[0].decode(), int(parts[1])
            nt, no, ne, tot = int(parts[2]), int(parts[3]), int(parts[4]), int(parts[5])
            tr = self._read(nt)
            so = self._read(no)
            se = self._read(ne)
        except (BrokenPipeError, IndexError, ValueError):
            self.close()
            return Result("server-died", -1, [], b"", b"", 0)
        trace = []
        for ln in tr.split(b"\n"):
            if ln:
                try:
                    trace.append(json.loads(ln))
                except ValueError:
                    trace.append({"c": "garbled"})
        return Result(status, code, trace, so, se, tot)

    def _read(self, n):
        buf = b""
        while len(buf) < n:
            chunk = self.proc.stdout.read(n - len(buf))
            if not chunk:
                raise BrokenPipeError
            buf += chunk
        return buf


class Script:
    """Builder for case scripts.  Every method appends one line and returns its line index."""

    def __init__(self):
        self.lines = []

    def add(self, *toks):
        self.lines.append(" ".join(str(t) for t in toks))
        return len(self.lines) - 1

    def text(self):
        return "\n".join(self.lines) + "\n"

    def extend(self, other):
        self.lines.extend(other.lines)


def by_index(trace):
    return {e["i"]: e for e in trace if "i" in e}

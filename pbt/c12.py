"""C12 — with ignore-unknown set, undeclared items are skipped cleanly."""
from hypothesis import strategies as st

import gen_text
from langbatch import run_subs, unhex_diag
from model_lang import Model, compare, dump_to_plain
from runner import Failure, Outcome, h64
from schema import (HAND, schemas, F_COMMENTS, F_IGNORE_UNKNOWN, F_NOCASE, F_KEYSTRVAL, F_MULTI, F_TITLE, o_int, o_str, o_list, o_sec, o_func)

# declared options whose names belong to the library's own vocabulary (an undeclared item is skipped, never redirected to them)
HAND["c12u"] = [
    o_int("i", 5), o_str("__unknown", "U0"), o_str("unknown", "U1"), o_list("str", "root", "{r}"),
    o_sec("single", [o_int("x", 1), o_str("__unknown", "U2"), o_func("__unknown_fn")]),
    o_sec("tm", [o_int("x", 1), o_list("str", "__unknown", "{a}")], F_MULTI | F_TITLE), o_func("fn"),
]

UNK = ["unk_q7", "zz_unknown", "Nope9", "zz_future|knob", "zz_a|zz_b|c", "\"zz_k=v\"", "'zz q'", "zz_x|", "\"\"", "''"]
VALS = ["v", "\"a b\"", "'q'", "12", "\"\"", "${HOME}", "\"x\\ny\"", "\"}\"", "\")\"", "\"{\"", "\"(\"", "\",\"", "\"=\"", "'} x'", "\") y\"", "\"+=\""]


@st.composite
def unknown_item(draw, depth=0, maxdepth=6):
    name = draw(st.sampled_from(UNK))
    k = draw(st.integers(0, 11 if depth < maxdepth else 6))
    v = lambda: draw(st.sampled_from(VALS))
    # a comment may stand between any two tokens of the item (mostly none)
    c = lambda: draw(st.sampled_from([" "] * 12 + [" /* c */ ", " # c\n", " // c\n ", " /**/ ", " /* {\n} */ "]))
    if k == 0:
        return "%s%s=%s%s" % (name, c(), c(), v())
    if k == 1:
        return "%s%s=%s{%s}" % (name, c(), c(), c())
    if k == 2:
        return "%s%s=%s{%s%s%s}" % (name, c(), c(), c(), v(), c())
    if k == 3:
        return "%s = {%s%s,%s%s,%s}" % (name, v(), c(), c(), v(), c())
    if k == 4:
        return "%s%s+=%s{%s}" % (name, c(), c(), v())
    if k == 5:
        return "%s%s+=%s%s" % (name, c(), c(), v())
    if k == 6:
        n = draw(st.integers(0, 3))
        return "%s%s(%s%s)" % (name, c(), c(), ", ".join(v() for _ in range(n)))
    title = draw(st.sampled_from(["", "", " t", " \"a title\"", " 'x'"]))
    n = draw(st.integers(0, 3))
    body = " ".join(draw(unknown_item(depth + 1, maxdepth)) for _ in range(n))
    return "%s%s%s%s{%s%s%s}" % (name, c() if title else " ", title, c(), draw(st.sampled_from(["", " ", "\n"])), body, draw(st.sampled_from(["", " ", "\n"])))


def what(u):
    c = []
    if "{" in u and "=" not in u.split("{")[0]:
        c.append("U/section")
    elif "(" in u.split("{")[0] and "=" not in u.split("(")[0]:
        c.append("U/call")
    elif "+=" in u:
        c.append("U/append")
    else:
        c.append("U/assign")
    return c


class C12:
    id = "C12"
    level = "exploration"
    variants = ("asan",)
    rule = ("accepted texts T (random or hand-built schema, any flags + IGNORE_UNKNOWN) x every item boundary at every depth "
            "(begin and end of each section body included) x 3 unknown items from a recursive generator (assignment, list "
            "forms, append, call with 0-3 args, plain/titled section with nested content to depth 6, comments between the "
            "tokens of the item), plus directed nesting "
            "depths 10^k. Metamorphic oracle: with the flag same return code and tree as T and no diagnostic; without the "
            "flag (outside free-form sections) rejected with >= 1 diagnostic. Non-trivial = U contains a section or the "
            "insertion point is below top level; distinct = distinct (T, point, U)")
    assumptions = ["only well-formed unknown items are inserted; names of U are disjoint from the schema",
                   "inside CFGF_KEYSTRVAL sections the 'without the flag' half is not applicable (an unknown assignment is a key there)"]

    def check_case(self, case, get_ex):
        schema = HAND[case["schema"]] if isinstance(case["schema"], str) else case["schema"]
        flags = case["flags"] | F_IGNORE_UNKNOWN
        text = case["text"] if "text" in case else gen_text.render(case["tokens"])
        m = Model(schema, flags)
        exp = m.parse(text)
        if not exp["accept"] or exp.get("grey"):
            return Outcome(classes=["base-not-accepted"], nontrivial=False, sample={"text": text[:200]})
        marks = [mk for mk in m.marks if mk["file"] == "[buf]"]
        subs = [{"flags": flags, "text": text}]
        meta = [None]
        us = case["unknowns"]
        only = case.get("only")
        for mi, mk in enumerate(marks):
            for ui, u in enumerate(us):
                if only is not None and [mi, ui] != only:
                    continue
                t2 = text[:mk["off"]] + u + "\n" + text[mk["off"]:]
                subs.append({"flags": flags, "text": t2})
                meta.append((mi, ui, True))
                if not (mk["flags"] & F_KEYSTRVAL):
                    subs.append({"flags": case["flags"] & ~F_IGNORE_UNKNOWN, "text": t2})
                    meta.append((mi, ui, False))
        r, res = run_subs(get_ex, schema, subs)
        fails, keys, cc = [], [], {}
        crashed_already = [False]
        if res[0]["parse"] is None or res[0]["parse"]["rc"] != 0:
            if not r.clean and res[0]["parse"] is None:
                return Outcome(failure=Failure("die/%s" % r.death(), r.stderr.decode("latin-1")[:1500]), classes=["died"])
            return Outcome(classes=["base-rejected-by-code"], nontrivial=False,
                           failure=Failure("base-verdict", "model accepts base text %r, code rc=%r" % (text, res[0]["parse"])))
        base_tree = dump_to_plain(res[0]["dump"]["tree"])
        for sub, mt, rs in zip(subs[1:], meta[1:], res[1:]):
            mi, ui, withflag = mt
            mk, u = marks[mi], us[ui]
            nt = mk["level"] > 0 or "U/section" in what(u)
            for c in what(u) + ["depth%d" % min(mk["level"], 3), "with-flag" if withflag else "without-flag"]:
                cc[c] = cc.get(c, 0) + 1
            if nt:
                keys.append(h64(sub["text"] + str(withflag)))
            e = rs["parse"]
            sig = msg = None
            if e is None and crashed_already[0]:
                continue            # only the first sub-case without a result is the victim of the crash
            if e is None:
                crashed_already[0] = True
                sig, msg = "die/%s" % r.death(), "child died: %s\n%s" % (r.death(), r.stderr.decode("latin-1")[:1200])
            elif withflag:
                if e["rc"] != 0:
                    sig, msg = "rejected/%s" % what(u)[0], "with the flag, text %r rejected (%r); base text %r accepted" % (sub["text"], unhex_diag(e), text)
                elif len(unhex_diag(e)) != len(unhex_diag(res[0]["parse"])):
                    # the ignored item adds no diagnostic of its own (the base text may have some: deprecated options)
                    sig, msg = "diagnostic/%s" % what(u)[0], "with the flag, text %r delivered %r; the text without the item %r" % (
                        sub["text"], unhex_diag(e), unhex_diag(res[0]["parse"]))
                else:
                    tree = dump_to_plain(rs["dump"]["tree"])
                    if tree != base_tree:
                        sig, msg = "tree-differs/%s" % what(u)[0], "text %r: tree differs from the tree of %r:\n%r\nvs\n%r" % (sub["text"], text, tree, base_tree)
            else:
                if e["rc"] == 0:
                    sig, msg = "accepted-without-flag/%s" % what(u)[0], "without the flag, text %r accepted" % sub["text"]
                elif not unhex_diag(e):
                    sig, msg = "no-diagnostic-without-flag", "without the flag, text %r rejected silently" % sub["text"]
            if sig:
                fails.append(Failure(sig, msg, dict(case, only=[mi, ui])))
        return Outcome(count=len(subs), keys=keys, class_counts=cc, nontrivial=bool(keys), failure=fails[0] if fails else None,
                       failures=fails[1:6], sample={"flags": flags, "text": text[:300], "unknowns": us})

    def directed(self, tier):
        out = []
        for u in ("zz = 5\n", "zz = {1, 2}\n", "zz += q\n", "zz(a, b)\n", "zz { a = 1 }\n", "zz t { }\n", "zz = \"s\"\n"):
            for fl in (0, F_COMMENTS, F_NOCASE):
                out.append({"schema": "c12u", "flags": fl, "text": "i = 3\nsingle { x = 4 }\ntm a { x = 2 }\nfn(p)\n", "unknowns": [u]})
        K = 5 if tier == "thorough" else 4
        for k in range(0, K + 1):
            n = 10 ** k
            for u in ("u {\n" * n + "}\n" * n, "u t { a = 1\n" * n + "}\n" * n, "u { a = {1, 2} b(c)\n" * n + " }" * n):
                out.append({"schema": "sections", "flags": 0, "text": "i = 3\nsingle { x = 4 }\ntm a { y = q }\n", "unknowns": [u]})
        return out

    def strategy(self, tier):
        hand = ["basic", "sections", "keyval", "nodefault", "names", "ptrs", "tutorial", "mixed", "deprecated", "c12u", "c12u"]

        @st.composite
        def case(draw):
            flags = draw(st.sampled_from([0, 0, F_NOCASE, F_COMMENTS]))
            if draw(st.integers(0, 2)) == 0:
                sc = draw(st.sampled_from(hand))
                opts = HAND[sc]
            else:
                opts = draw(schemas(nocase=bool(flags & F_NOCASE), allow_deprecated=True))
                sc = opts
            toks = draw(gen_text.text_tokens(opts, flags, max_items=5, allow_unknown=False, bad_p=0.0))
            toks = [t for t in toks]
            us = [draw(unknown_item()) for _ in range(3)]
            # a comment in front of the unknown item belongs to that item: it is skipped with it
            us = [(draw(st.sampled_from(["# about the unknown item\n", "/* about it */ ", "// it\n"])) + u) if draw(st.integers(0, 3)) == 0 else u for u in us]
            return {"schema": sc, "flags": flags, "tokens": toks, "unknowns": us}
        return case()

    def run(self, r):
        r.run_cases(self.directed(r.tier), chunksize=1)
        r.run_hypothesis(8000 if r.tier == "quick" else 150000)


PROP = C12()

"""C14 — user callbacks see exactly the parsed items, and their verdict binds."""
import copy

from hypothesis import strategies as st

import gen_text
from execclient import Script, hx, by_index
from langbatch import run_subs, unhex_diag
from model_lang import Model, compare, dump_to_plain
from runner import Failure, Outcome, h64
from schema import (HAND, schemas, emit_schema, walk, F_NOCASE, F_COMMENTS, F_MULTI, F_TITLE, F_LIST, F_KEYSTRVAL, F_DEPRECATED,
                    CB_PARSE, CB_VALID, CB_VALID2, CB_FREE, o_int, o_str, o_list, o_sec, o_func, o_ptr, o_float, o_bool)

HAND["c14"] = [
    o_int("pi", 0, 0, CB_PARSE), o_str("ps", None, 0, CB_PARSE | CB_VALID), o_list("int", "pil", None, 0, CB_PARSE | CB_VALID),
    o_list("str", "vsl", "{a, b}", 0, CB_VALID), o_int("vi", 1, 0, CB_VALID), o_float("pf", "0", 0, CB_PARSE), o_bool("pb", 0, 0, CB_PARSE),
    o_ptr("p"), o_ptr("pl", F_LIST), o_func("fn"), o_func("g"), o_int("plain", 3),
    o_sec("vs", [o_int("x", 1, 0, CB_VALID), o_list("str", "l", None, 0, CB_PARSE | CB_VALID), o_func("h"),
                 o_sec("in", [o_str("s", "d", 0, CB_VALID)], F_MULTI | F_TITLE, CB_VALID)], F_MULTI, CB_VALID),
    o_sec("single", [o_int("y", 2, 0, CB_VALID | CB_PARSE)], 0, CB_VALID),
]


def decorate(opts, draw):
    out = []
    for o in opts:
        o = dict(o)
        if o["k"] == "sec":
            if o.get("sub"):
                o["sub"] = decorate(o["sub"], draw)
            if draw(st.integers(0, 2)) == 0:
                o["cb"] = o.get("cb", 0) | CB_VALID
        elif o["k"] in ("int", "float", "bool", "str"):
            r = draw(st.integers(0, 5))
            if r in (0, 1):
                o["cb"] = o.get("cb", 0) | CB_PARSE
                if o["f"] & F_LIST:
                    o["d"] = None
            if r in (1, 2, 3):
                o["cb"] = o.get("cb", 0) | CB_VALID
                if o["f"] & F_LIST:
                    o["d"] = None      # a parsed default would be validated whenever an instance is created: not from the text
        out.append(o)
    return out


def strip_registered(opts, paths, prefix=()):
    """schema as declared to the library: CB_VALID removed from the options that are registered by path instead"""
    out = []
    for o in opts:
        o = dict(o)
        p = prefix + (o["n"],)
        if "|".join(p) in paths:
            o["cb"] = o.get("cb", 0) & ~CB_VALID
        if o["k"] == "sec" and o.get("sub"):
            o["sub"] = strip_registered(o["sub"], paths, p)
        out.append(o)
    return out


def norm_actual(cb):
    out = []
    for e in cb or []:
        d = {"k": e["k"], "opt": bytes.fromhex(e["opt"]).decode("latin-1")}
        if "arg" in e and e["k"] == "parse":
            d["arg"] = None if e["arg"] is None else bytes.fromhex(e["arg"]).decode("latin-1")
        if "argv" in e:
            d["argv"] = [bytes.fromhex(a).decode("latin-1") for a in e["argv"]]
        if "snap" in e:
            sn = e["snap"]
            t = sn["t"]
            vals = []
            for v in sn["v"]:
                if t == 2:
                    vals.append(float.fromhex(v))
                elif t in (3, 7):
                    vals.append(None if v is None else bytes.fromhex(v).decode("latin-1") if v != "dead" else "dead")
                elif t == 5:
                    vals.append("sec")
                else:
                    vals.append(v)
            d["snap"] = vals if t != 5 else len(vals)
        out.append(d)
    return out


def norm_model(log):
    out = []
    for e in log:
        d = {"k": e["k"], "opt": e["opt"]}
        if e["k"] == "parse":
            d["arg"] = e["arg"]
        if "argv" in e:
            d["argv"] = e["argv"]
        if "snap" in e:
            d["snap"] = e["snap"]
        out.append(d)
    return out


class C14:
    id = "C14"
    level = "exploration"
    variants = ("asan",)
    rule = ("schemas (hand-built and random) in which a generated subset of options carries parse / validation / function "
            "callbacks (validation callbacks partly registered through cfg_set_validate_func by schema path, also below "
            "multi sections) x texts with varied lexical forms x the choice 'invocation number k fails' for every k up to "
            "the number of invocations (and none). Oracle: the language model predicts the exact invocation log (parse "
            "callback per value with the decoded text in input order and the stored value being its result, function "
            "callbacks with decoded argv, validation after every stored value with the value visible), reject at k with the "
            "log ending at k and every option other than the one being assigned as in the model; setter half: pre-set "
            "validation callback vetoes (value unchanged, failure) or rewrites (rewritten value stored) by-name setters. "
            "Non-trivial = >= 3 invocations and a failing k that is neither first nor last; distinct = distinct (text, k)")
    assumptions = ["options with a parse callback have no parsed default (a failing callback there is a documented abort)",
                   "the model mirrors the code's additional validation calls at list close and after a section body "
                   "(snapshot = complete option) to predict the invocation numbers"]

    def check_case(self, case, get_ex):
        if case.get("kind") == "setter":
            return self.check_setter(case, get_ex)
        schema = HAND[case["schema"]] if isinstance(case["schema"], str) else case["schema"]
        flags = case["flags"]
        text = gen_text.render(case["tokens"])
        reg = case.get("register", [])
        decl = strip_registered(schema, set(reg))
        pre = [["setvalidate", 1, hx(p), 1] for p in reg]
        pre_text = case.get("pre_text")
        if pre_text is not None:
            pre = [["parse_buf", 1, hx(pre_text)]] + pre      # instances exist before the callbacks are registered
        m0 = Model(schema, flags)
        if pre_text is not None:
            m0.parse(pre_text)
        base0 = m0.cbseq
        e0 = m0.parse(text)
        if e0.get("grey"):
            return Outcome(classes=["grey-base"], sample={"text": text[:200]})
        n = m0.cbseq - base0
        ks = [0] + list(range(1, min(n, 40) + 1))
        if case.get("only") is not None:
            ks = [case["only"]]
        subs = [{"flags": flags, "text": text, "cbfail": k, "pre": pre} for k in ks]
        r, res = run_subs(get_ex, decl, subs)
        fails, keys, cc = [], [], {}
        crashed_already = [False]
        for k, rs in zip(ks, res):
            m = Model(schema, flags)
            if pre_text is not None:
                m.parse(pre_text)
            init_log = len(m.cblog)
            m.cbseq = 0
            m.fail_at = k
            exp = m.parse(text)
            e = rs["parse"]
            nt = n >= 3 and 1 < k < n
            if nt:
                keys.append(h64([text, k, reg]))
            cc["k=0" if k == 0 else "k>0"] = cc.get("k=0" if k == 0 else "k>0", 0) + 1
            sig = msg = None
            if e is None and crashed_already[0]:
                continue            # only the first sub-case without a result is the victim of the crash
            if e is None:
                crashed_already[0] = True
                sig, msg = "die/%s" % r.death(), "child died: %s\n%s" % (r.death(), r.stderr.decode("latin-1")[:1200])
            else:
                alog = norm_actual(e.get("cb"))
                mlog = norm_model(m.cblog[init_log:])
                kinds = sorted(set(x["k"] for x in mlog))
                for kk in kinds:
                    cc["cb/" + kk] = cc.get("cb/" + kk, 0) + 1
                if exp["accept"] != (e["rc"] == 0):
                    sig = "verdict/%s" % ("accepted" if e["rc"] == 0 else "rejected")
                    msg = "text %r with invocation %d failing: model %s (%s), parse returned %d\nactual log %r" % (
                        text, k, "accepts" if exp["accept"] else "rejects", exp.get("why"), e["rc"], alog)
                elif alog != mlog:
                    i = 0
                    while i < min(len(alog), len(mlog)) and alog[i] == mlog[i]:
                        i += 1
                    a = alog[i] if i < len(alog) else None
                    b = mlog[i] if i < len(mlog) else None
                    what = (b or a)["k"]
                    sig = "log/%s/%s" % (what, "missing" if a is None else "extra" if b is None else "differs")
                    msg = "text %r, failing invocation %d (registered by path: %r): invocation %d differs\n  actual   %r\n  expected %r\n  full actual %r" % (
                        text, k, reg, i + 1, a, b, alog)
                else:
                    d = compare(m.root, dump_to_plain(rs["dump"]["tree"]))
                    if d and exp["accept"]:
                        sig, msg = "tree", "text %r k=%d: %s" % (text, k, d)
                    elif d and not exp["accept"]:
                        # every option other than the one being assigned must equal the model
                        last = m.cblog[-1]["opt"] if m.cblog else None
                        if last is None or ("/" + last) not in d.split(":")[0]:
                            sig, msg = "tree-after-failure", "text %r k=%d (failing callback on %r): %s" % (text, k, last, d)
            if sig:
                fails.append(Failure(sig, msg, dict(case, only=k)))
        return Outcome(count=len(ks), keys=keys, class_counts=cc, nontrivial=bool(keys), failure=fails[0] if fails else None,
                       failures=fails[1:6], sample={"flags": flags, "text": text[:300], "register": reg, "invocations": n})

    # setter half ---------------------------------------------------------------------------------------------
    def check_setter(self, case, get_ex):
        from c10 import SCHEMA as S10
        s = Script()
        emit_schema(s, 0, S10)
        s.add("init", 1, 0, 0)
        for line in case.get("pre", []):
            s.add(*line)
        cmd, path, idx, val, kind = case["call"][:5]
        form = case["call"][5:]          # ["w"]: the un-indexed convenience wrapper (cfg_setint ...), ["n"]: the indexed form
        ib = s.add("get" + kind, 1, hx(path), idx)
        szb = s.add("size", 1, hx(path))
        ic = s.add(cmd, 1, hx(path), idx, hx(val), *form)
        ia = s.add("get" + kind, 1, hx(path), idx)
        s.add("free", 1)
        r = get_ex("asan").run(s)
        t = by_index(r.trace)
        if not r.clean:
            return Outcome(failure=Failure("die/%s" % r.death(), r.stderr.decode("latin-1")[:1200]), classes=["setter"])
        exp = case["expect"]
        got = t[ia]["v"]
        if kind == "float":
            got = float.fromhex(got)
        elif kind == "str":
            got = None if got is None else bytes.fromhex(got).decode("latin-1")
        before = t[ib]["v"]
        if kind == "float":
            before = float.fromhex(before)
        elif kind == "str":
            before = None if before is None else bytes.fromhex(before).decode("latin-1")
        fail = None
        cbs = [e for e in t[ic].get("cb", []) if e["k"] == "valid2"]
        if len(cbs) != 1:
            fail = Failure("valid2-not-called-once", "%r: %d invocations of the pre-set validation callback" % (case["call"], len(cbs)))
        elif exp == "veto":
            if t[ic]["rc"] == 0 or got != before:
                fail = Failure("veto-ignored", "%r: rc %d, value %r -> %r" % (case["call"], t[ic]["rc"], before, got))
        else:
            if t[ic]["rc"] != 0 or got != exp:
                fail = Failure("rewrite-or-store", "%r: rc %d, value now %r, expected %r" % (case["call"], t[ic]["rc"], got, exp))
        return Outcome(classes=["setter/" + ("veto" if exp == "veto" else "store")], nontrivial=True, failure=fail,
                       sample={"call": case["call"], "expect": exp})

    def setter_cases(self):
        out = []
        pres = [[], [["parse_buf", 1, hx("il = {1, 2, 3}\nfl = {0.5, 1}\nsl = {x, y, z}\ni = 9\nf = 9\ns = nine\n")]]]
        for pi, pre in enumerate(pres):
            lim = 1 if pi == 0 else 9      # on pristine defaults only index 0 is meaningful (a typed set discards the defaults)
            for path, idxs in (("i", [0]), ("il", [0, 1, 2, 3][:lim])):
                for idx in idxs:
                    out.append({"kind": "setter", "pre": pre, "call": ["setint", path, idx, "666", "int"], "expect": "veto"})
                    out.append({"kind": "setter", "pre": pre, "call": ["setint", path, idx, "777", "int"], "expect": 778})
                    out.append({"kind": "setter", "pre": pre, "call": ["setint", path, idx, "12", "int"], "expect": 12})
            for path, idxs in (("f", [0]), ("fl", [0, 1, 2][:lim])):
                for idx in idxs:
                    out.append({"kind": "setter", "pre": pre, "call": ["setfloat", path, idx, "666", "float"], "expect": "veto"})
                    out.append({"kind": "setter", "pre": pre, "call": ["setfloat", path, idx, "777", "float"], "expect": 778.5})
                    out.append({"kind": "setter", "pre": pre, "call": ["setfloat", path, idx, "0.25", "float"], "expect": 0.25})
            for path, idxs in (("s", [0]), ("sl", [0, 1, 3][:lim])):
                for idx in idxs:
                    out.append({"kind": "setter", "pre": pre, "call": ["setstr", path, idx, "veto", "str"], "expect": "veto"})
                    out.append({"kind": "setter", "pre": pre, "call": ["setstr", path, idx, "fine", "str"], "expect": "fine"})
        # pre-set validation callbacks registered by schema path (also below a multi section, before any instance exists)
        for regpath, mk, path in (("tm|x", [["addtsec", 1, hx("tm"), hx("a")]], "tm=a|x"),
                                  ("tm|x", [["parse_buf", 1, hx("tm p { }\ntm q { x = 4 }\n")]], "tm=q|x"),
                                  ("single|x", [], "single|x"), ("multi|x", [["parse_buf", 1, hx("multi { }\nmulti { }\n")]], "multi=1|x"),
                                  ("ni", [], "ni")):
            pre = [["setvalidate2", 1, hx(regpath), 1]] + mk
            out.append({"kind": "setter", "pre": pre, "call": ["setint", path, 0, "666", "int"], "expect": "veto"})
            out.append({"kind": "setter", "pre": pre, "call": ["setint", path, 0, "777", "int"], "expect": 778})
            out.append({"kind": "setter", "pre": pre, "call": ["setint", path, 0, "5", "int"], "expect": 5})
        # every index-0 case through both forms of the setter: cfg_setint(...) and cfg_setnint(..., 0)
        both = []
        for c in out:
            if c["call"][2] == 0:
                both.append(dict(c, call=c["call"] + ["w"]))
                both.append(dict(c, call=c["call"] + ["n"]))
            else:
                both.append(c)
        return both

    def strategy(self, tier):
        @st.composite
        def case(draw):
            flags = draw(st.sampled_from([0, 0, F_NOCASE, F_COMMENTS]))
            if draw(st.integers(0, 2)) == 0:
                sc = "c14"
                opts = HAND[sc]
            else:
                opts = decorate(draw(schemas(nocase=bool(flags & F_NOCASE), allow_deprecated=True, allow_keystrval=False)), draw)
                sc = opts
            toks = draw(gen_text.text_tokens(opts, flags, max_items=5, allow_unknown=False, bad_p=0.0))
            if draw(st.integers(0, 3)) == 0:
                # one string value for which the executor's value-parsing callback approves without handing back a value
                vs = [k for k, t in enumerate(toks) if t[0] == "s" and t[1] in gen_text.STR_POOL]
                if vs:
                    k = draw(st.sampled_from(vs))
                    toks = toks[:k] + [["s", "noresult", toks[k][2]]] + toks[k + 1:]
            cand = ["|".join(p) for p, o in walk(opts) if (o.get("cb", 0) & CB_VALID)]
            reg = [p for p in cand if draw(st.integers(0, 2)) == 0]
            return {"schema": sc, "flags": flags, "tokens": toks, "register": reg}
        return case()

    def late_registration_cases(self):
        """the validation callback is registered by schema path while instances of the multi section exist already: instances
        created afterwards must be validated (the first text only creates instances without touching the options)"""
        import c07
        out = []
        for pre_text, text, reg in (
                ("vs { }\nvs { }\n", "vs { x = 5 l = {a, b} }\nvs { in t { s = q } }\n", ["vs|x", "vs|l", "vs|in|s", "vs|in", "vs"]),
                ("vs { in t1 { } }\n", "vs { in t2 { s = zz } x = 3 }\n", ["vs|in|s", "vs|x"]),
                ("single { }\n", "single { y = 4 }\nvs { x = 1 }\n", ["single|y", "vs|x"])):
            out.append({"schema": "c14", "flags": 0, "tokens": [["raw", text]], "register": reg, "pre_text": pre_text})
        return out

    def run(self, r):
        r.run_cases(self.setter_cases(), chunksize=4)
        r.run_cases(self.late_registration_cases(), chunksize=1)
        r.run_hypothesis(12000 if r.tier == "quick" else 200000)


PROP = C14()

"""Common runner: distributes enumerated and Hypothesis-generated cases over worker processes,
confirms failures, consults KNOWN_FINDINGS.txt, writes evidence and replay files."""
import hashlib
import importlib
import json
import multiprocessing as mp
import os
import shutil
import sys
import time
import traceback
from collections import Counter

VERIF = os.path.dirname(os.path.dirname(os.path.abspath(__file__)))
sys.path.insert(0, os.path.join(VERIF, "pbt"))
sys.path.insert(0, os.path.join(VERIF, "engine"))

import build as buildmod  # noqa: E402
from execclient import Executor  # noqa: E402

NWORKERS = min(16, os.cpu_count() or 1)
DEFAULT_SEED = 20261002


class Failure:
    def __init__(self, sig, msg, case=None):
        self.sig = sig      # signature used for KNOWN_FINDINGS matching
        self.msg = msg
        self.case = case

    def to_json(self):
        return {"sig": self.sig, "msg": self.msg, "case": self.case}


class Outcome:
    __slots__ = ("classes", "nontrivial", "key", "failure", "sample", "count", "keys", "class_counts", "failures")

    def __init__(self, classes=(), nontrivial=False, key=None, failure=None, sample=None, count=1, keys=None,
                 class_counts=None, failures=None):
        self.classes = classes
        self.nontrivial = nontrivial
        self.key = key
        self.failure = failure
        self.sample = sample
        self.count = count              # number of sub-cases this (batched) case evaluated
        self.keys = keys                # hashes of the distinct non-trivial sub-cases (batched cases)
        self.class_counts = class_counts
        self.failures = failures        # further failures of a batched case


STOP_ON_FIRST = bool(os.environ.get("VERIF_STOP_ON_FIRST"))


def h64(obj):
    if not isinstance(obj, (bytes, str)):
        obj = json.dumps(obj, sort_keys=True, default=repr)
    if isinstance(obj, str):
        obj = obj.encode("utf-8", "surrogatepass")
    return int.from_bytes(hashlib.blake2b(obj, digest_size=8).digest(), "big")


class Stats:
    def __init__(self):
        self.evals = 0
        self.classes = Counter()
        self.nontrivial = set()
        self.samples = {}
        self.failures = []
        self.excluded = Counter()
        self.deaths = Counter()
        self.extra = Counter()
        self.notes = []

    def merge(self, o):
        self.evals += o.evals
        self.classes.update(o.classes)
        self.nontrivial |= o.nontrivial
        for k, v in o.samples.items():
            self.samples.setdefault(k, v)
        self.failures.extend(o.failures)
        self.excluded.update(o.excluded)
        self.deaths.update(o.deaths)
        self.extra.update(o.extra)
        self.notes.extend(o.notes)

    def record(self, case, out):
        self.evals += out.count
        for c in out.classes:
            self.classes[c] += 1
        if out.class_counts:
            self.classes.update(out.class_counts)
        if out.keys:
            self.nontrivial.update(out.keys)
        for f in (out.failures or []):
            if f.case is None:
                f.case = case
            self.failures.append(f)
        if out.nontrivial:
            self.nontrivial.add(h64(out.key if out.key is not None else case))
            for c in (out.classes or ("nontrivial",)):
                if c not in self.samples and len(self.samples) < 40:
                    self.samples[c] = out.sample if out.sample is not None else case
        elif "trivial" not in self.samples:
            self.samples["trivial"] = out.sample if out.sample is not None else case
        if out.failure is not None:
            if out.failure.case is None:
                out.failure.case = case
            self.failures.append(out.failure)


# ------------------------------------------------------------------------------------------------
# known findings
def load_known(pid):
    """returns (open entries [{key, repro, text}], fixed lines)"""
    opens, fixed = [], []
    p = os.path.join(VERIF, "KNOWN_FINDINGS.txt")
    if not os.path.exists(p):
        return opens, fixed
    for ln in open(p):
        ln = ln.strip()
        if not ln or ln.startswith("#"):
            continue
        if ln.startswith("open:"):
            body = ln[5:].strip()
            fields = {}
            rest = []
            for tok in body.split():
                if "=" in tok and not rest and tok.split("=", 1)[0] in ("property", "key", "repro"):
                    k, v = tok.split("=", 1)
                    fields[k] = v
                else:
                    rest.append(tok)
            if fields.get("property") == pid:
                opens.append({"key": fields.get("key"), "repro": fields.get("repro"), "text": " ".join(rest)})
        elif ln.startswith("fixed:"):
            fixed.append(ln)
    return opens, fixed


# ------------------------------------------------------------------------------------------------
# worker side
_W = {}


def _worker_init(build_dir, pid, tier, seed):
    _W["build"] = build_dir
    _W["prop"] = importlib.import_module(pid.lower()).PROP
    _W["tier"] = tier
    _W["seed"] = seed
    _W["ex"] = {}


def get_ex(variant="asan", cpu=5, wall=30):
    k = (variant, cpu)
    ex = _W["ex"].get(k)
    if ex is None:
        ex = Executor(_W["build"], variant, cpu=cpu, wall=wall)
        _W["ex"][k] = ex
    return ex


def _run_cases_job(args):
    jobname, cases = args
    prop = _W["prop"]
    st = Stats()
    for case in cases:
        if _W.get("failcount", 0) >= 25:
            # this tree is broken in a way that makes (nearly) every case fail: stop exploring, the failures collected
            # so far are reported; on a tree where the property holds this never triggers
            st.extra["cases_skipped_after_25_failures_in_a_worker"] += 1
            continue
        try:
            out = prop.check_case(case, get_ex)
        except Exception:
            out = Outcome(failure=Failure("harness-exception", traceback.format_exc()))
        st.record(case, out)
        if out.failure is not None:
            _W["failcount"] = _W.get("failcount", 0) + 1 + len(out.failures or [])
    return st


def _run_hyp_job(args):
    """one Hypothesis run in this worker"""
    from hypothesis import given, settings, seed as hseed, HealthCheck, Phase
    widx, n_examples = args
    prop = _W["prop"]
    st = Stats()
    holder = {}
    strat = prop.strategy(_W["tier"])
    if strat is None or n_examples <= 0:
        return st
    known_keys = {e["key"] for e in load_known(prop.id)[0]}

    @hseed(h64("%s/%s/%d" % (_W["seed"], prop.id, widx)) & 0xFFFFFFFF)
    @settings(database=None, deadline=None, derandomize=False, report_multiple_bugs=False,
              max_examples=n_examples, suppress_health_check=[HealthCheck.too_slow, HealthCheck.data_too_large],
              phases=[Phase.generate, Phase.shrink])
    @given(strat)
    def test(case):
        try:
            out = prop.check_case(case, get_ex)
        except Exception:
            out = Outcome(failure=Failure("harness-exception", traceback.format_exc()))
        f = out.failure
        if f is not None and f.sig in known_keys:
            st.excluded[f.sig] += 1
            out.failure = None
            f = None
        if f is None:
            st.record(case, out)
        else:
            st.evals += 1
            if f.case is None:
                f.case = case
            holder["f"] = f
            raise AssertionError(f.sig)

    try:
        test()
    except AssertionError:
        if "f" in holder:
            st.failures.append(holder["f"])
    except Exception:
        st.failures.append(Failure("harness-exception", traceback.format_exc()))
    return st


# ------------------------------------------------------------------------------------------------
def chunk(lst, n):
    for i in range(0, len(lst), n):
        yield lst[i:i + n]


class Runner:
    def __init__(self, pid, tier, seed):
        self.pid = pid
        self.tier = tier
        self.seed = seed
        self.t0 = time.time()
        self.stats = Stats()
        self.prop = importlib.import_module(pid.lower()).PROP
        variants = getattr(self.prop, "variants", ("asan",))
        self.build_dir = buildmod.build(variants)
        self.workdir = os.path.join(VERIF, "work", "%s-%d" % (pid, os.getpid()))
        os.makedirs(self.workdir, exist_ok=True)
        os.environ["VERIF_WORK"] = self.workdir
        self.pool = None
        self.exhaustive = None
        self.violations = []
        self.known_printed = []

    def get_pool(self):
        if self.pool is None:
            ctx = mp.get_context("fork")
            self.pool = ctx.Pool(NWORKERS, initializer=_worker_init,
                                 initargs=(self.build_dir, self.pid, self.tier, self.seed))
        return self.pool

    def run_cases(self, cases, chunksize=None):
        cases = list(cases)
        if not cases:
            return
        if chunksize is None:
            chunksize = max(1, min(200, len(cases) // (NWORKERS * 4) or 1))
        if STOP_ON_FIRST and self.stats.failures:
            return
        jobs = [("enum", c) for c in chunk(cases, chunksize)]
        # (sensitivity runs only: VERIF_STOP_ON_FIRST=1 ends the exploration at the first failure; it is then confirmed and
        # reported as usual.  Registered commands never set it.)
        for k in range(0, len(jobs), NWORKERS * 8 if STOP_ON_FIRST else len(jobs)):
            for st in self.get_pool().imap_unordered(_run_cases_job, jobs[k:k + (NWORKERS * 8 if STOP_ON_FIRST else len(jobs))]):
                self.stats.merge(st)
            if STOP_ON_FIRST and self.stats.failures:
                return

    def run_hypothesis(self, n_total):
        if STOP_ON_FIRST and self.stats.failures:
            return
        per = max(1, n_total // NWORKERS)
        for st in self.get_pool().imap_unordered(_run_hyp_job, [(w, per) for w in range(NWORKERS)]):
            self.stats.merge(st)

    # -------------------------------------------------------------------------------------------
    def confirm(self, failure):
        """re-run the case three times in fresh children; returns the confirmed failure or None"""
        _worker_init(self.build_dir, self.pid, self.tier, self.seed)
        last = None
        for _ in range(3):
            try:
                out = self.prop.check_case(failure.case, get_ex)
            except Exception:
                out = Outcome(failure=Failure("harness-exception", traceback.format_exc()))
            if out.failure is None:
                return None
            cands = [out.failure] + list(out.failures or [])
            same = [c for c in cands if c.sig == failure.sig]
            last = same[0] if same else out.failure
        if last.case is None:
            last.case = failure.case
        return last

    def finish(self):
        prop = self.prop
        opens, _fixed = load_known(self.pid)
        open_keys = {e["key"]: e for e in opens}
        flaky = 0
        seen_sigs = set()
        # known findings: run the stored repro, print the line iff it still fails
        _worker_init(self.build_dir, self.pid, self.tier, self.seed)
        for e in opens:
            still = False
            try:
                case = json.load(open(os.path.join(VERIF, e["repro"])))["case"]
                out = prop.check_case(case, get_ex)
                still = out.failure is not None and out.failure.sig == e["key"]
                if out.failure is not None and out.failure.sig != e["key"]:
                    self.stats.failures.append(Failure(out.failure.sig, out.failure.msg, case))
            except Exception:
                self.stats.notes.append("known-finding repro failed to run: %s" % e["repro"])
            if still:
                line = "KNOWN-FINDING: property=%s %s" % (self.pid, e["text"])
                print(line)
                self.known_printed.append(line)
        for f in self.stats.failures:
            if f.sig in open_keys:
                self.stats.excluded[f.sig] += 1
                continue
            if f.sig in seen_sigs:
                self.stats.extra["further_failures_same_signature"] += 1
                continue
            c = self.confirm(f)
            if c is None:
                flaky += 1
                continue
            if c.sig in open_keys:
                self.stats.excluded[c.sig] += 1
                continue
            if c.sig in seen_sigs:
                self.stats.extra["further_failures_same_signature"] += 1
                continue
            seen_sigs.add(c.sig)
            seen_sigs.add(f.sig)
            path = self.write_replay(c)
            self.violations.append((c, path))
        for c, path in self.violations[:10]:
            print("VIOLATION property=%s replay=%s" % (self.pid, path))
            print("  sig=%s :: %s" % (c.sig, c.msg[:1500].replace("\n", "\n    ")))
        self.write_evidence(flaky)
        if self.pool:
            self.pool.close()
            self.pool.join()
        shutil.rmtree(self.workdir, ignore_errors=True)
        return 1 if self.violations else 0

    def write_replay(self, f):
        d = os.path.join(os.environ.get("VERIF_REPLAY_DIR") or os.path.join(VERIF, "replays"), self.pid)
        os.makedirs(d, exist_ok=True)
        body = {"property": self.pid, "sig": f.sig, "msg": f.msg, "case": f.case, "seed": self.seed, "tier": self.tier}
        name = "%016x.json" % h64(f.case)
        p = os.path.join(d, name)
        with open(p, "w") as fh:
            json.dump(body, fh, indent=1, default=repr)
        return p

    def write_evidence(self, flaky):
        prop = self.prop
        st = self.stats
        samples = [{"class": k, "case": v} for k, v in list(st.samples.items())[:12]]
        if not samples:
            samples = [{"class": "none", "case": None}]
        cov = {
            "evaluations": st.evals,
            "distinct_nontrivial": len(st.nontrivial),
            "rule": prop.rule,
            "samples": samples,
            "class_histogram": dict(st.classes.most_common()),
            "excluded_by_known_finding": dict(st.excluded),
            "executor_deaths": dict(st.deaths),
            "flaky_discarded": flaky,
            "known_findings_printed": self.known_printed,
            "extra": dict(st.extra),
            "notes": st.notes[:20],
        }
        if self.exhaustive is not None:
            cov["exhaustive"] = bool(self.exhaustive)
        cov.update(getattr(prop, "coverage_extra", {}))
        ev = {
            "property_id": self.pid,
            "tier": self.tier,
            "seed": self.seed,
            "level": prop.level,
            "coverage": cov,
            "assumptions": list(prop.assumptions),
            "wall_s": round(time.time() - self.t0, 2),
            "violations": len(self.violations),
        }
        evdir = os.environ.get("VERIF_EVIDENCE_DIR") or os.path.join(VERIF, "evidence")
        os.makedirs(evdir, exist_ok=True)
        tmp = os.path.join(evdir, self.pid + ".json.tmp")
        with open(tmp, "w") as fh:
            json.dump(ev, fh, indent=1, default=repr)
        os.replace(tmp, os.path.join(evdir, self.pid + ".json"))


def corpus_cases(pid):
    d = os.path.join(VERIF, "corpus", pid)
    out = []
    if os.path.isdir(d):
        for name in sorted(os.listdir(d)):
            if name.endswith(".json"):
                out.append(json.load(open(os.path.join(d, name)))["case"])
    return out


def main(argv):
    import argparse
    ap = argparse.ArgumentParser()
    ap.add_argument("pid")
    ap.add_argument("--tier", default=os.environ.get("VERIF_TIER", "quick"))
    ap.add_argument("--replay")
    a = ap.parse_args(argv)
    seed = int(os.environ.get("VERIF_SEED", DEFAULT_SEED) or DEFAULT_SEED)
    pid = a.pid.upper()
    if a.replay:
        try:
            body = json.load(open(a.replay))
        except (ValueError, UnicodeDecodeError):
            body = None
        if body is None or "fuzz_artifact" in (body.get("case") or {}):
            import fuzzdrv
            prop = importlib.import_module(pid.lower()).PROP
            path = a.replay if body is None else body["case"]["fuzz_artifact"]
            failed, out = fuzzdrv.replay_file(prop.fuzz_target, path)
            if failed:
                print("VIOLATION property=%s replay=%s" % (pid, a.replay))
                print(out[-3000:])
                return 1
            print("replay passes: %s" % a.replay)
            return 0
        r = Runner(pid, "quick", seed)
        _worker_init(r.build_dir, pid, "quick", seed)
        out = r.prop.check_case(body["case"], get_ex)
        shutil.rmtree(r.workdir, ignore_errors=True)
        if out.failure is not None:
            print("VIOLATION property=%s replay=%s" % (pid, a.replay))
            print("  sig=%s :: %s" % (out.failure.sig, out.failure.msg[:3000]))
            return 1
        print("replay passes: %s" % a.replay)
        return 0
    r = Runner(pid, a.tier, seed)
    r.run_cases(corpus_cases(pid), chunksize=1)
    r.stats.extra["corpus_cases"] = r.stats.evals
    r.prop.run(r)
    rc = r.finish()
    print("%s tier=%s evals=%d nontrivial=%d violations=%d wall=%.1fs" %
          (pid, a.tier, r.stats.evals, len(r.stats.nontrivial), len(r.violations), time.time() - r.t0))
    return rc


if __name__ == "__main__":
    sys.exit(main(sys.argv[1:]))

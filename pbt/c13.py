"""C13 — including a file equals reading its text in place."""
import os
import shutil

from hypothesis import strategies as st

import gen_text
from c02 import fixture_dir
from execclient import Script, hx, by_index
from langbatch import unhex_diag
from model_lang import Model, dump_to_plain
from runner import Failure, Outcome, h64
from schema import (HAND, schemas, emit_schema, F_NOCASE, F_COMMENTS, F_MULTI, F_TITLE, o_func, o_int, o_str, o_list, o_sec)

_counter = [0]


def with_include(opts):
    """declare include() in every section of the schema (dropping an option that is called 'include' already)"""
    out = []
    for o in opts:
        if o["n"].lower() == "include":
            continue
        if o["k"] == "sec":
            o = dict(o, sub=with_include(o.get("sub") or []))
        out.append(o)
    return out + [o_func("include", "include")]


def with_nest(opts):
    """a function at the top level whose callback parses a text into another live context"""
    return [o for o in opts if o["n"].lower() != "nest"] + [o_func("nest", "nest")]


HAND["c13"] = with_include([
    o_int("i", 5), o_str("s", "d"), o_list("int", "il", "{1, 2}"),
    o_sec("single", [o_int("x", 1), o_sec("inner", [o_int("z", 1)])]),
    o_sec("tm", [o_int("x", 1), o_list("str", "zl", None), o_sec("deep", [o_int("d", 4)], F_MULTI | F_TITLE)], F_MULTI | F_TITLE),
    o_sec("multi", [o_int("x", 1)], F_MULTI),
])
FAIL_KINDS = ["missing", "directory", "self", "too-deep", "bad-content", "unterminated", "missing-abs"]


def shadow(s, under, abs_path, content):
    """a decoy: the absolute path replicated below the directory `under` (a regular, acceptable file)"""
    cur = under
    comps = [c for c in abs_path.split("/") if c]
    for c in comps[:-1]:
        cur = os.path.join(cur, c)
        s.add("mkdir", hx(cur))
    s.add("mkfile", hx(os.path.join(cur, comps[-1])), hx(content))


def build_files(text, intervals):
    """intervals: laminar list of (start, end); returns (main_text, {name: text}, depth)"""
    iv = sorted(set(intervals), key=lambda x: (x[0], -x[1]))
    # identical intervals form a chain (file k contains only the include of file k+1)
    names = {}
    nodes = []
    for k, (a, b) in enumerate(intervals):
        nodes.append({"a": a, "b": b, "name": "c13_f%d.conf" % k, "kids": [], "k": k})
    # parent = the last earlier node that contains it (intervals are generated nested-or-disjoint, in generation order)
    roots = []
    for n in nodes:
        parent = None
        for p in nodes[:n["k"]]:
            if p["a"] <= n["a"] and n["b"] <= p["b"]:
                if parent is None or (parent["a"] <= p["a"] and p["b"] <= parent["b"]):
                    parent = p
        (parent["kids"] if parent else roots).append(n)
    files = {}

    def content(a, b, kids):
        out = []
        pos = a
        for kd in sorted(kids, key=lambda x: x["a"]):
            if kd["a"] < pos:
                continue
            out.append(text[pos:kd["a"]])
            out.append("include(\"%s\")\n" % kd["name"])
            pos = kd["b"]
        out.append(text[pos:b])
        return "".join(out)

    def depth_of(n):
        return 1 + max([depth_of(k) for k in n["kids"]] or [0])

    def emit(n):
        files[n["name"]] = content(n["a"], n["b"], n["kids"])
        for k in n["kids"]:
            emit(k)
    for r in roots:
        emit(r)
    main = content(0, len(text), roots)
    return main, files, max([depth_of(r) for r in roots] or [0])


def balanced(content):
    from model_lex import lex as _lex
    d = 0
    for tk in _lex(content):
        if tk.kind == "{":
            d += 1
        elif tk.kind == "}":
            d -= 1
            if d < 0:
                return False
    return d == 0


def values_only(tree):
    """names, titles and values; an aborted parse may leave flag bits of the option it was assigning changed"""
    if tree is None:
        return None
    return {"title": tree["title"], "opts": [{"n": o["n"], "v": [values_only(v) if isinstance(v, dict) else v for v in o["v"]]} for o in tree["opts"]]}


class C13:
    id = "C13"
    level = "exploration"
    variants = ("asan",)
    rule = ("accepted texts T (schemas with include() declared in every section) split at random item boundaries of any "
            "depth into a random tree of include files (nesting 1..12, incl. chains), files placed in the working directory "
            "(relative, absolute or ~nobody-prefixed names) or behind a search path of 1-3 directories (optionally with "
            "same-named directories as decoys in the directories asked first); differential oracle: same return code "
            "and tree as the flat text for nesting <= 10, PARSE_ERROR with >= 1 diagnostic beyond; an error placed after the "
            "include is reported at the including source's name and line, and an offending item inserted at a random item boundary of the split text "
            "(any body, any file; directed: a plain section opened in several sources, every boundary) at the name and line of the source that holds it; failure histories (missing relative file, missing "
            "absolute file and directory - both with a decoy regular file at <search dir>/<that absolute name> -, "
            "self-inclusion, 11-deep chain, bad content, unterminated string; each repeated 1-12 times) followed by the "
            "split text must behave as in a fresh process; afterwards include depth 0, no stream/descriptor/memory left. "
            "in a third of the cases one item is a function whose callback parses a text into another live context. "
            "Non-trivial = >= 2 files, nesting >= 2 or a failure before the success; distinct = distinct (T, split, history)")
    assumptions = ["unreadable (mode 000) files cannot be produced as root and are skipped",
                   "split points are item boundaries reported by the reference model for the flat text"]

    def check_case(self, case, get_ex):
        schema = HAND[case["schema"]] if isinstance(case["schema"], str) else case["schema"]
        flags = case["flags"]
        text = case["text"] if "text" in case else gen_text.render(case["tokens"])
        if not text.endswith("\n"):
            text += "\n"
        m = Model(schema, flags)
        exp = m.parse(text)
        if not exp["accept"] or exp.get("grey"):
            return Outcome(classes=["base-not-accepted"], sample={"text": text[:200]})
        if case.get("nest") is not None:
            # one item of the text is a call whose callback parses into another context (same effect flat or included)
            schema = with_nest(schema)
            top = sorted(set(mk["off"] for mk in m.marks if mk["file"] == "[buf]" and mk["level"] == 0))
            at = top[int(case["nest"] * len(top)) % len(top)] if top else 0
            text = text[:at] + "nest(9, \"%s\")\n" % ("zz_unknown = 1" if case["nest"] > 0.5 else "# nothing\\n") + text[at:]
            m = Model(schema, flags)
            exp = m.parse(text)
            if not exp["accept"] or exp.get("grey"):
                return Outcome(classes=["base-not-accepted"], sample={"text": text[:200]})
        marks = [mk for mk in m.marks if mk["file"] == "[buf]"]
        # bodies: consecutive marks with equal (path, level)
        intervals = []
        for sel in case["splits"]:
            # sel = (body selector, i, j, repeat) in [0,1) fractions -> concrete marks
            bodies = {}
            for mk in marks:
                bodies.setdefault((mk["path"], mk["level"]), []).append(mk["off"])
            keys = sorted(bodies, key=lambda k: (len(k[0]), str(k)))
            if intervals and sel[3]:
                # nest inside the previous interval: restrict to bodies with a mark range inside it
                pa, pb = intervals[-1]
                keys = [k for k in keys if any(pa <= o <= pb for o in bodies[k])]
            if not keys:
                continue
            offs = sorted(set(bodies[keys[int(sel[0] * len(keys)) % len(keys)]]))
            if intervals and sel[3]:
                pa, pb = intervals[-1]
                offs = [o for o in offs if pa <= o <= pb]
            if len(offs) < 2:
                if intervals and sel[3]:
                    intervals.append(intervals[-1])      # chain: a file that only includes the next one
                continue
            i = int(sel[1] * (len(offs) - 1))
            j = i + 1 + int(sel[2] * (len(offs) - 1 - i))
            j = min(j, len(offs) - 1)
            new = (offs[i], offs[j])
            if all((new[1] <= a or new[0] >= b) or (a <= new[0] and new[1] <= b) for a, b in intervals):
                intervals.append(new)
        for a, b in case.get("intervals_at", []):
            intervals.append((text.index(a), text.index(b)))
        for _ in range(case.get("chain", 0)):
            if intervals:
                intervals.append(intervals[-1])
        main, files, depth = build_files(text, intervals)
        # F: the same split with an offending item inserted at one item boundary (any body, any file): the diagnostic
        # must name the source that holds it and its line there
        err = None
        if case.get("errpos") is not None and marks and depth <= 10:
            off = marks[int(case["errpos"] * len(marks)) % len(marks)]["off"]
            ins = "\nzz_marker_c13 = = 1\n"
            sh = lambda x, end: x + len(ins) if (x > off or (end and x == off)) else x
            text_e = text[:off] + ins + text[off:]
            main_e, files_e, _d = build_files(text_e, [(sh(a, False), sh(b, True)) if a < off else (a + len(ins), b + len(ins)) for a, b in intervals])
            err = [main_e, files_e]
            # (a file that closes or opens a section of its includer is legal, but where the text around it "stands" is
            # not something the property defines: positions are judged only when every file is balanced in itself)
            if not all(balanced(c) for c in files_e.values()):
                err = None
        # layout
        fx = fixture_dir()
        _counter[0] += 1
        base = os.path.join(fx, "c13")
        shutil.rmtree(base, ignore_errors=True)
        dirs = [os.path.join(base, d) for d in ("d1", "d2", "d3")]
        mode = case.get("mode", "cwd")
        place = {}
        s = Script()
        emit_schema(s, 0, schema)
        s.add("mkdir", hx(base))
        for d in dirs:
            s.add("mkdir", hx(d))
        s.add("mkdir", hx(os.path.join(base, "adir")))
        s.add("cwd", hx(base))
        if case.get("nest") is not None:
            s.add("init", 9, 0, flags)
        names = sorted(files)
        for k, n in enumerate(names):
            d = base if mode in ("cwd", "tilde") else dirs[(k + case.get("salt", 0)) % (1 if mode == "path1" else 3)]
            place[n] = os.path.join(d, n)
        if mode == "tilde":
            for n in names:
                place[n] = os.path.join(base, "~zz9" + n)

        def rename(mn, fl):
            fl = dict(fl)
            for n in names:
                # absolute include names / names that start with a tilde but name no account (used as they are,
                # relative to the working directory)
                to = place[n] if mode == "abs" else ("~zz9" + n if mode == "tilde" else n)
                mn = mn.replace("include(\"%s\")" % n, "include(\"%s\")" % to)
                for f in fl:
                    fl[f] = fl[f].replace("include(\"%s\")" % n, "include(\"%s\")" % to)
            return mn, fl
        main, files = rename(main, files)
        if err:
            err = list(rename(*err))
        if mode == "path3" and case.get("decoys"):
            # a directory of the same name in every search directory that is asked before the one holding the file
            for k, n in enumerate(names):
                j = (k + case.get("salt", 0)) % 3
                for d in dirs[:j]:
                    s.add("mkdir", hx(os.path.join(d, n)))
        for n in names:
            s.add("mkfile", hx(place[n]), hx(files[n]))
        s.add("mkfile", hx(os.path.join(base, "bad.conf")), hx("i_no_such_option = 1\n"))
        s.add("mkfile", hx(os.path.join(base, "self.conf")), hx("include(\"%s\")\n" % (os.path.join(base, "self.conf"))))
        s.add("mkfile", hx(os.path.join(base, "unterm.conf")), hx("s = 'never closed"))
        # decoys for the absolute failing targets: the same absolute name below every search directory and below cwd
        for d in dirs + [base]:
            shadow(s, d, os.path.join(base, "absent.conf"), "# decoy\n")
            shadow(s, d, os.path.join(base, "adir"), "# decoy\n")
        for k in range(12):
            s.add("mkfile", hx(os.path.join(base, "deep%d.conf" % k)),
                  hx(("include(\"%s\")\n" % os.path.join(base, "deep%d.conf" % (k + 1))) if k < 11 else "# bottom\n"))

        def init(h):
            s.add("init", h, 0, flags)
            if mode in ("path1", "path3"):
                for d in (dirs[:1] if mode == "path1" else dirs):
                    s.add("searchpath", h, hx(d))
        # A flat, B split, C split + error after, D history then split
        init(1)
        ia = s.add("parse_buf", 1, hx(text))
        da = s.add("dump", 1)
        init(2)
        ib = s.add("parse_buf", 2, hx(main))
        db = s.add("dump", 2)
        init(3)
        bad_line = main.count("\n") + 2
        ic = s.add("parse_buf", 3, hx(main + "\nzz_no_such_option = 1\n"))
        # E: an error at the end of a file that itself included a deeper file (position after the nested include returned)
        def eligible(n):
            # the file must include a deeper file, stand at the top level of the main text and be balanced in itself
            # (a file that closes or opens a section of its includer is legal, but where its trailing text "stands" is not
            # something the property defines)
            if "include(" not in files[n]:
                return False
            k = int(n[len("c13_f"):-len(".conf")])
            a, b = intervals[k]
            mk = [m_ for m_ in marks if m_["off"] == a]
            if not mk or mk[0]["level"] != 0:
                return False
            from model_lex import lex as _lex
            depth_ = 0
            for tk in _lex(files[n]):
                if tk.kind == "{":
                    depth_ += 1
                elif tk.kind == "}":
                    depth_ -= 1
                    if depth_ < 0:
                        return False
            return depth_ == 0
        inter = [n for n in names if eligible(n)]
        ie = None
        if inter and depth <= 10:
            en = inter[0]
            bad_text = files[en] + ("" if files[en].endswith("\n") else "\n") + "zz_no_such_option = 1\n"
            e_line = bad_text.count("\n")
            s.add("mkfile", hx(place[en]), hx(bad_text))
            init(5)
            ie = s.add("parse_buf", 5, hx(main))
            s.add("free", 5)
            s.add("mkfile", hx(place[en]), hx(files[en]))
        jf = None
        if err:
            for n in names:
                s.add("mkfile", hx(place[n]), hx(err[1][n]))
            init(6)
            jf = s.add("parse_buf", 6, hx(err[0]))
            s.add("free", 6)
            for n in names:
                s.add("mkfile", hx(place[n]), hx(files[n]))
        init(4)
        fk = case.get("fail_kind", "missing")
        target = {"missing": "nonexistent.conf", "missing-abs": os.path.join(base, "absent.conf"), "directory": os.path.join(base, "adir"), "self": os.path.join(base, "self.conf"),
                  "too-deep": os.path.join(base, "deep0.conf"), "bad-content": os.path.join(base, "bad.conf"),
                  "unterminated": os.path.join(base, "unterm.conf")}[fk]
        hist = []
        for _ in range(case.get("fail_repeat", 0)):
            hist.append(s.add("parse_buf", 4, hx("include(\"%s\")\n" % target)))
        idd = s.add("parse_buf", 4, hx(main))
        dd = s.add("dump", 4)
        for h in (1, 2, 3, 4) + ((9,) if case.get("nest") is not None else ()):
            s.add("free", h)
        ifin = s.add("allocstat")
        r = get_ex("asan", 10).run(s)
        t = by_index(r.trace)
        cl = ["mode/" + mode, "depth%d" % min(depth, 12), "files%d" % min(len(files), 5)]
        if case.get("fail_repeat"):
            cl.append("history/" + fk)
        nt = len(files) >= 2 or depth >= 2 or bool(case.get("fail_repeat"))
        sample = {"flags": flags, "mode": mode, "depth": depth, "main": main[:300], "files": {k: v[:120] for k, v in list(files.items())[:4]},
                  "history": [fk, case.get("fail_repeat", 0)]}
        if not r.clean:
            d = r.death()
            return Outcome(failure=Failure("die/%s" % d, "child died: %s after %r\n%s" % (d, r.trace[-1] if r.trace else None, r.stderr.decode("latin-1")[:1500])),
                           classes=cl, nontrivial=nt, sample=sample)
        fail = None
        if t[ia]["rc"] != 0:
            fail = Failure("base-verdict", "model accepts %r, parse returned %d %r" % (text, t[ia]["rc"], unhex_diag(t[ia])))
        elif depth <= 10:
            if t[ib]["rc"] != 0:
                fail = Failure("split-rejected/%s" % mode, "flat text accepted, split text (depth %d, %s) rejected: %r\nmain %r\nfiles %r" % (
                    depth, mode, unhex_diag(t[ib]), main, files))
            elif t[da]["tree"] != t[db]["tree"]:
                fail = Failure("split-tree-differs", "tree of the split text differs from the flat text\nmain %r\nfiles %r" % (main, files))
            else:
                dg = unhex_diag(t[ic])
                want_file = "[buf]"
                if t[ic]["rc"] != 1 or not dg:
                    fail = Failure("error-after-include-not-reported", "rc %d diag %r" % (t[ic]["rc"], dg))
                elif dg[-1][0] != want_file or dg[-1][1] != bad_line:
                    fail = Failure("error-after-include/%s" % ("file" if dg[-1][0] != want_file else "line"),
                                   "error on line %d of the main text reported as %r\nmain %r\nfiles %r" % (bad_line, dg[-1], main, files))
            if fail is None and ie is not None:
                dg = unhex_diag(t[ie])
                want = place[en] if mode in ("abs", "path1", "path3") else ("~zz9" + en if mode == "tilde" else en)
                if t[ie]["rc"] != 1 or not dg:
                    fail = Failure("error-in-intermediate-file-not-reported", "rc %d diag %r" % (t[ie]["rc"], dg))
                elif dg[-1][1] != e_line or os.path.basename(dg[-1][0] or "") != os.path.basename(want):
                    fail = Failure("error-after-nested-include/%s" % ("line" if os.path.basename(dg[-1][0] or "") == os.path.basename(want) else "file"),
                                   "error on line %d of %s (after its nested include returned) reported as %r\nfile %r" % (e_line, en, dg[-1], bad_text))
            if fail is None and jf is not None:
                dg = unhex_diag(t[jf])
                holder = [n for n in names if "zz_marker_c13" in err[1][n]]
                src = err[1][holder[0]] if holder else err[0]
                want = ("[buf]" if not holder else (place[holder[0]] if mode in ("abs", "path1", "path3") else ("~zz9" + holder[0] if mode == "tilde" else holder[0])))
                wline = src[:src.index("zz_marker_c13")].count("\n") + 1
                cl.append("error-inside/" + ("included" if holder else "main"))
                if t[jf]["rc"] != 1 or not dg:
                    fail = Failure("error-inside-split-not-reported", "rc %d diag %r\nmain %r\nfiles %r" % (t[jf]["rc"], dg, err[0], err[1]))
                elif os.path.basename(dg[-1][0] or "") != os.path.basename(want) or dg[-1][1] != wline:
                    fail = Failure("error-inside-split/%s" % ("line" if os.path.basename(dg[-1][0] or "") == os.path.basename(want) else "file"),
                                   "offending item on line %d of %s reported as %r\nmain %r\nfiles %r" % (wline, want, dg[-1], err[0], err[1]))
            if fail is None and case.get("fail_repeat"):
                bad = [k for k in hist if t[k]["rc"] != 1 or not unhex_diag(t[k])]
                misplaced = [k for k in hist if fk in ("missing", "missing-abs") and unhex_diag(t[k]) and unhex_diag(t[k])[-1][:2] != ("[buf]", 1)]
                if bad:
                    e = t[bad[0]]
                    fail = Failure("failing-include-not-reported/%s" % fk, "include of %s: rc %d diag %r" % (target, e["rc"], unhex_diag(e)))
                elif misplaced:
                    fail = Failure("missing-include-misreported", "include of a missing file on line 1 of the buffer reported as %r" % (unhex_diag(t[misplaced[0]])[-1],))
                elif t[idd]["rc"] != 0 or values_only(t[dd]["tree"]) != values_only(t[db]["tree"]):
                    fail = Failure("after-failures/%s" % fk, "after %d failing includes (%s) the split text gives rc %d %r; fresh context gave rc %d" % (
                        case["fail_repeat"], fk, t[idd]["rc"], unhex_diag(t[idd]), t[ib]["rc"]))
        else:
            if t[ib]["rc"] != 1 or not unhex_diag(t[ib]):
                fail = Failure("too-deep-accepted", "nesting %d: rc %d diag %r" % (depth, t[ib]["rc"], unhex_diag(t[ib])))
        if fail is None:
            a = t[ifin]
            if a["incptr"] != 0:
                fail = Failure("include-depth-left", "cfg_include_stack_ptr = %d at the end" % a["incptr"])
            elif a["live"] != 0 or a["streams"] != 0:
                fail = Failure("resources-left", "live blocks %d, open streams %d" % (a["live"], a["streams"]))
        return Outcome(classes=cl, nontrivial=nt, failure=fail, sample=sample)

    def strategy(self, tier):
        frac = st.floats(0, 0.999)

        @st.composite
        def case(draw):
            flags = draw(st.sampled_from([0, 0, F_COMMENTS, F_NOCASE]))
            if draw(st.integers(0, 2)) == 0:
                sc = "c13"
                opts = HAND[sc]
            else:
                opts = with_include(draw(schemas(nocase=bool(flags & F_NOCASE), allow_func=False, allow_ptr=False, allow_deprecated=False)))
                sc = opts
            plain = [o for o in opts if not (o["k"] == "func")]
            toks = draw(gen_text.text_tokens(plain or opts, flags, max_items=7, allow_unknown=False, bad_p=0.0))
            splits = draw(st.lists(st.tuples(frac, frac, frac, st.booleans()), min_size=1, max_size=6))
            chain = draw(st.sampled_from([0, 0, 0, 1, 3, 8, 9, 10, 11]))
            return {"schema": sc, "flags": flags, "tokens": toks, "splits": [list(x) for x in splits], "chain": chain,
                    "mode": draw(st.sampled_from(["cwd", "cwd", "abs", "path1", "path3", "path3", "tilde"])), "salt": draw(st.integers(0, 2)),
                    "decoys": draw(st.booleans()), "nest": draw(st.one_of(st.none(), st.none(), st.floats(0, 0.999))),
                    "fail_kind": draw(st.sampled_from(FAIL_KINDS)), "fail_repeat": draw(st.sampled_from([0, 0, 1, 2, 11, 12])),
                    "errpos": draw(st.floats(0, 0.999))}
        return case()

    def run(self, r):
        base = "i = 1\nsingle { x = 2 inner { z = 3 } }\ntm a { x = 4 zl = {p, q} deep d { d = 5 } }\ntm b { }\nmulti { x = 6 }\nil += {3}\ns = end\n"
        cases = []
        for fk in FAIL_KINDS:
            for rep in (1, 5, 10, 11, 12):
                for mode in ("cwd", "path3"):
                    cases.append({"schema": "c13", "flags": 0, "text": base, "splits": [[0.0, 0.1, 0.9, False], [0.5, 0.0, 0.9, True]],
                                  "chain": 0, "mode": mode, "fail_kind": fk, "fail_repeat": rep})
        for chain in range(0, 13):
            cases.append({"schema": "c13", "flags": 0, "text": base, "splits": [[0.0, 0.0, 0.5, False]], "chain": chain, "mode": "cwd"})
        # a plain section opened in several sources, an offending item at every item boundary
        again = "i = 1\nsingle { x = 2 }\ntm a { x = 4 }\nsingle { x = 3\n inner { z = 3 }\n}\nil += {3}\nsingle {\n inner { z = 4 } }\ns = end\n"
        for iv in ([("single { x = 2", "tm a")], [("single { x = 3", "il +=")], [("single { x = 2", "tm a"), ("single { x = 3", "il +=")],
                   [("i = 1", "tm a"), ("single { x = 2", "tm a")], [("single {\n inner", "s = end")], [("x = 3", "}\nil"), ("inner { z = 3", "}\nil")],
                   [("single { x = 2", "tm a"), ("single {\n inner", "s = end"), ("inner { z = 4", " }\ns = end")]):
            for k in range(24):
                for mode in ("cwd", "path3", "abs"):
                    cases.append({"schema": "c13", "flags": 0, "text": again, "splits": [], "intervals_at": iv, "chain": 0, "mode": mode, "errpos": k / 24.0})
        r.run_cases(cases, chunksize=2)
        r.run_hypothesis(12000 if r.tier == "quick" else 200000)


PROP = C13()

"""C11 — path lookups resolve like step-by-step navigation."""
from hypothesis import strategies as st

import gen_text
from execclient import Script, hx, by_index
from model_lang import Model
from runner import Failure, Outcome, h64
from schema import (HAND, schemas, emit_schema, F_IGNORE_UNKNOWN, F_NOCASE, F_MULTI, F_TITLE, F_LIST, F_COMMENTS, o_int, o_str, o_list, o_sec,
                    F_NO_TITLE_DUPES)

HAND["c11"] = [
    o_int("i", 5), o_list("int", "il", "{1, 2}"),
    o_sec("single", [o_int("x", 1), o_sec("inner", [o_int("z", 1)]), o_sec("mi", [o_int("w", 3)], F_MULTI)]),
    o_sec("multi", [o_int("x", 1), o_sec("tt", [o_str("v", "v")], F_MULTI | F_TITLE)], F_MULTI),
    o_sec("tm", [o_int("x", 1), o_sec("sub", [o_int("y", 2)]), o_sec("deep", [o_int("d", 4)], F_MULTI | F_TITLE)], F_MULTI | F_TITLE),
    o_sec("ts", [o_int("x", 1)], F_TITLE),
    # long names: a step of a path is as long as the name is (one name is a prefix of another)
    o_sec("L" * 70, [o_int("v", 20)]), o_sec("L" * 63, [o_int("v", 10)]), o_sec("M" * 64, [o_int("x", 1)], F_MULTI),
    o_sec("N" * 300, [o_int("x", 1), o_sec("O" * 129, [o_int("y", 2)], F_MULTI | F_TITLE)]),
]
C11_TEXT = ("%s { v = 21 }\n%s { x = 2 }\n%s { }\n%s { x = 3 %s t1 { y = 4 } %s '%s' { } }\n" % ("L" * 70, "M" * 64, "M" * 64, "N" * 300, "O" * 129, "O" * 129, "T" * 200) +
            "multi { x = 2 tt a { } tt 'b c' { v = w } }\nmulti { }\nmulti { tt \"q|r\" { } }\n"
            "tm a { x = 3 deep d1 { } deep \"it's\" { d = 5 } }\ntm \"b|c\" { }\ntm 'x=y' { sub { y = 7 } }\ntm \"\" { }\ntm \"back\\\\slash\" { }\n"
            "tm 12 { }\ntm \"'\" { }\ntm \" \" { }\nsingle { mi { } mi { w = 4 } inner { z = 9 } }\nts t { x = 6 }\n")


def quote_title(t):
    return "'" + t.replace("\\", "\\\\").replace("'", "\\'") + "'"


class C11:
    id = "C11"
    level = "exploration"
    variants = ("asan",)
    rule = ("trees from random and hand-built schemas (contexts with and without CFGF_NOCASE / CFGF_IGNORE_UNKNOWN) + accepted texts with titles from a pool containing | = ' \\ blanks, "
            "digit-only, empty and one-byte titles; from each tree every option and every section instance x every "
            "qualifier form of every step (unqualified, =index, =title, ='quoted' with both escapes) and, for each such "
            "path, systematically broken variants (separator dropped / leading / trailing / doubled, index = size, -1, 1x, "
            "empty qualifier, unknown title, qualifier on a single section, unterminated quote, dangling backslash, stray =, "
            "the one-byte paths). Oracle: pointer identity of cfg_getopt/cfg_getsec(path) with stepwise cfg_getnsec/"
            "cfg_gettsec + leaf cfg_getopt; by-path getters/setters/size/rmsec have the stepwise effect; non-resolving "
            "paths give not-found within the CPU limit and leave the dump unchanged. Non-trivial = path with >= 2 steps or a "
            "quoted title, and every broken variant; distinct = distinct (tree, path)")
    assumptions = ["grey: doubled separator inside a path, non-canonical index spellings (+1, 0x1, 01, quoted index), titles "
                   "differing only in case", "the tree is enumerated from the reference model (validated by C01)"]

    # schema-level resolver (cfg_set_validate_func): a path through sections addresses the declaration that instances created
    # later are copied from (multi sections) or the one existing instance (single sections); broken paths register nothing
    def check_schema_resolver(self, case, get_ex):
        s = Script()
        emit_schema(s, 0, HAND["c11"])
        s.add("init", 1, 0, case["flags"])
        if case.get("pre"):
            s.add("parse_buf", 1, hx(C11_TEXT))        # instances of the multi sections exist already
        for p in case["register"]:
            s.add("setvalidate", 1, hx(p), 1)
        s.add("cbfail", 0)
        ip = s.add("parse_buf", 1, hx(case["text"]))
        s.add("free", 1)
        r = get_ex("asan").run(s)
        t = by_index(r.trace)
        if not r.clean:
            return Outcome(failure=Failure("schema-resolver/die/%s" % r.death(), r.stderr.decode("latin-1")[:1500]), classes=["schema-resolver"])
        got = [bytes.fromhex(e["opt"]).decode() for e in t[ip].get("cb", []) if e["k"] == "valid"]
        fail = None
        if t[ip]["rc"] != 0:
            fail = Failure("schema-resolver/rejected", "text %r rejected: %r" % (case["text"], t[ip].get("diag")))
        elif got != case["expect"]:
            fail = Failure("schema-resolver/callbacks", "registered %r (instances existing before: %r), parsed %r: validation callbacks ran for %r, expected %r" % (
                case["register"], bool(case.get("pre")), case["text"], got, case["expect"]))
        return Outcome(classes=["schema-resolver"], nontrivial=True, failure=fail, sample={"register": case["register"], "text": case["text"]})

    def schema_cases(self):
        text = "multi { x = 5 }\ntm new { x = 6 deep dd { d = 7 } }\nsingle { x = 8 mi { w = 9 } inner { z = 10 } }\ni = 11\n"
        good = ["multi|x", "tm|x", "tm|deep|d", "single|x", "single|mi|w", "single|inner|z", "i"]
        expect = ["x", "x", "d", "x", "w", "z", "i"]
        out = []
        for pre in (False, True):
            for flags in (0, F_NOCASE):
                out.append({"kind": "schema", "flags": flags, "pre": pre, "register": good, "text": text, "expect": expect})
                for k, p in enumerate(good):
                    out.append({"kind": "schema", "flags": flags, "pre": pre, "register": [p], "text": text, "expect": [expect[k]]})
                if flags & F_NOCASE:
                    # section steps and the leaf spelled in another case than the declaration
                    other = ["MULTI|x", "Tm|X", "TM|Deep|D", "Single|x", "SINGLE|mi|W", "single|INNER|z", "I"]
                    out.append({"kind": "schema", "flags": flags, "pre": pre, "register": other, "text": text, "expect": expect})
                    for k, p in enumerate(other):
                        out.append({"kind": "schema", "flags": flags, "pre": pre, "register": [p], "text": text, "expect": [expect[k]]})
                broken = ["multi|", "|multi|x|", "|multi|x", "||single|x", "|i", "nosuch|x", "i|x", "multi|x|", "tm|deep|", "single|nosuch", "multi|nosuch|x", "", "|", "tm=a|x", "multi=0|x", "single|inner|z|"]
                out.append({"kind": "schema", "flags": flags, "pre": pre, "register": broken, "text": text, "expect": []})
        return out

    def check_case(self, case, get_ex):
        if case.get("kind") == "schema":
            return self.check_schema_resolver(case, get_ex)
        schema = HAND[case["schema"]] if isinstance(case["schema"], str) else case["schema"]
        flags = case["flags"]
        text = case["text"] if "text" in case else gen_text.render(case["tokens"])
        m = Model(schema, flags)
        exp = m.parse(text)
        if not exp["accept"] or exp.get("grey"):
            return Outcome(classes=["base-not-accepted"], sample={"text": text[:200]})
        s = Script()
        emit_schema(s, 0, schema)
        s.add("init", 1, 0, flags)
        ip = s.add("parse_buf", 1, hx(text))
        nh = [10]
        queries = []      # (kind, script index, expected handle-step index or None, description, class)
        secs = []         # (handle, chain, msec) for every section instance incl. root

        def walk(msec, handle, chain):
            secs.append((handle, chain, msec))
            for o in msec.opts:
                if o.kind != "sec":
                    continue
                for idx, inst in enumerate(o.vals):
                    h = nh[0]
                    nh[0] += 1
                    ig = s.add("getnsec", handle, hx(o.d["n"]), idx, h)
                    inst_chain = chain + [(o, idx, inst)]
                    queries.append(("step", ig, None, inst_chain, "step"))
                    if (o.d["f"] & F_TITLE) and (o.d["f"] & F_MULTI) and inst.title is not None:
                        it = s.add("gettsec", handle, hx(o.d["n"]), hx(inst.title))
                        dup = [k for k, x in enumerate(o.vals) if x.title == inst.title]
                        queries.append(("same-as", it, ig if dup[0] == idx else None, inst_chain, ["gettsec"]))
                    walk(inst, h, inst_chain)
        walk(m.root, 1, [])
        if len(secs) > 40:
            secs = secs[:40]
        i0 = s.add("dump", 1)

        def step_forms(o, idx, inst):
            """-> list of (text, valid, classes)"""
            name = o.d["n"]
            f = o.d["f"]
            out = []
            if idx == 0:
                out.append((name, True, ["unqualified"]))      # an unqualified step means the first instance
            if f & F_MULTI:
                if f & F_TITLE:
                    t = inst.title
                    first = [k for k, x in enumerate(o.vals) if x.title == t][0] == idx
                    if t and "|" not in t and not t.startswith("'"):
                        out.append((name + "=" + t, first, ["title-raw"]))
                    out.append((name + "=" + quote_title(t), first, ["title-quoted"]))
                    out.append((name + "=" + quote_title(t + "zz"), False, ["unknown-title"]))
                    out.append((name + "='" + t.replace("'", "").replace("\\", ""), False, ["unterminated-quote"]))
                    out.append((name + "='" + t.replace("'", "").replace("\\", "") + "\\", False, ["dangling-backslash"]))
                    out.append((name + "=", False, ["empty-qualifier"]))
                else:
                    out.append((name + "=%d" % idx, True, ["index"]))
                    out.append((name + "=%d" % len(o.vals), False, ["index=size"]))
                    out.append((name + "=-1", False, ["index=-1"]))
                    out.append((name + "=%dx" % idx, False, ["index-garbage"]))
                    out.append((name + "=''", False, ["index-empty-quoted"]))
                    out.append((name + "=%d" % (idx + 2 ** 32), False, ["index-wraps"]))
                    out.append((name + "=", False, ["empty-qualifier"]))
            else:
                out.append((name + "=0", False, ["qualifier-on-single"]))
                out.append((name + "='x'", False, ["qualifier-on-single"]))
            return out

        def paths_for(chain, limit=60):
            """all combinations of step forms (bounded) -> list of (path-prefix, valid, classes)"""
            acc = [("", True, [])]
            for (o, idx, inst) in chain:
                nxt = []
                forms = step_forms(o, idx, inst)
                for pre, ok, cl in acc:
                    for txt, v, c in forms:
                        # combine every form of the last step with the valid forms of the earlier ones, and the reverse
                        nxt.append(((pre + "|" + txt) if pre else txt, ok and v, cl + c))
                nxt.sort(key=lambda x: (not x[1], len(x[0])))
                valid = [x for x in nxt if x[1]]
                invalid = [x for x in nxt if not x[1]]
                acc = valid[:limit // 2] + invalid[:limit // 2]
            return acc

        for handle, chain, msec in secs:
            prefixes = paths_for(chain) if chain else [("", True, [])]
            leaf_names = [o.d["n"] for o in msec.opts]
            # expected pointers through single-level accessors
            leaf_idx = {}
            for nme in leaf_names[:6]:
                leaf_idx[nme] = s.add("getopt", handle, hx(nme))
            for pre, ok, cl in prefixes:
                # section getters
                if chain:
                    iq = s.add("getsec", 1, hx(pre))
                    queries.append(("sec", iq, handle if ok else 0, pre, cl + (["steps>=2"] if len(chain) > 1 else [])))
                    if "index" in cl and ok:
                        s.add("errno", 34)          # ERANGE left behind by some earlier call
                        iq = s.add("getsec", 1, hx(pre))
                        queries.append(("sec", iq, handle, pre, cl + ["ambient-errno"]))
                    if ok:
                        for bad, bc in ((pre + "|", "trailing-separator"), ("|" + pre, "leading-separator"), (pre + "=", "stray-equal") if "=" not in pre.split("|")[-1] else (pre + "|=", "stray-equal")):
                            ib = s.add("getsec", 1, hx(bad))
                            queries.append(("sec", ib, 0, bad, ["broken/" + bc]))
                for nme in list(leaf_idx)[:3]:
                    path = (pre + "|" + nme) if pre else nme
                    iq = s.add("getopt", 1, hx(path))
                    queries.append(("opt", iq, leaf_idx[nme] if ok else None, path, cl + (["steps>=2"] if len(chain) >= 1 else ["leaf-only"])))
                    if ok:
                        brk = [(path + "|", "trailing-separator"), ("|" + path, "leading-separator"), (path + "=", "stray-equal"),
                               (path + "zz", "unknown-leaf"), (path.replace("|", "", 1), "separator-dropped") if "|" in path else
                               ((path + "|" + nme, "leaf-as-section") if msec.find(nme).kind != "sec" else (path + "||", "trailing-separator"))]
                        for bad, bc in brk:
                            ib = s.add("getopt", 1, hx(bad))
                            queries.append(("opt", ib, None, bad, ["broken/" + bc]))
        for one in ("=", "|", "'", "\\", "''", "=|", "|=", "'|'", "a='", "==", "||"):
            ib = s.add("getopt", 1, hx(one))
            queries.append(("opt", ib, None, one, ["broken/one-byte"]))
            ib = s.add("getsec", 1, hx(one))
            queries.append(("sec", ib, 0, one, ["broken/one-byte"]))
        i1 = s.add("dump", 1)
        # effects: setter / size / rmsec through a path equal the stepwise call
        eff = []
        for handle, chain, msec in secs[1:6]:
            valid = [p for p in paths_for(chain) if p[1]]
            if not valid:
                continue
            pre = valid[-1][0]
            ints = [o for o in msec.opts if o.kind == "int" and not (o.d["f"] & F_LIST) and not o.d.get("cb")]
            if ints:
                nme = ints[0].d["n"]
                iset = s.add("setint", 1, hx(pre + "|" + nme), 0, hx("4242"))
                iget = s.add("getint", handle, hx(nme), 0)
                isz = s.add("size", 1, hx(pre + "|" + nme))
                eff.append(("set", iset, iget, isz, pre + "|" + nme))
        for handle, chain, msec in reversed(secs[1:]):
            valid = [p for p in paths_for(chain) if p[1]]
            o, idx, inst = chain[-1]
            if valid and (o.d["f"] & F_MULTI):
                parent = [h for h, c, ms in secs if c == chain[:-1]]
                if not parent:
                    continue
                ib = s.add("size", parent[0], hx(o.d["n"]))
                bad = s.add("rmsec", 1, hx(valid[-1][0] + "zz"))
                irm = s.add("rmsec", 1, hx(valid[-1][0]))
                ia = s.add("size", parent[0], hx(o.d["n"]))
                eff.append(("rm", ib, irm, ia, valid[-1][0], bad))
                break
        s.add("free", 1)
        r = get_ex("asan", 10).run(s)
        t = by_index(r.trace)
        if not r.clean:
            d = r.death()
            return Outcome(failure=Failure("die/%s" % d, "child died: %s after %r\n%s" % (d, r.trace[-1] if r.trace else None, r.stderr.decode("latin-1")[:1200])),
                           classes=["died"], sample={"text": text[:200]})
        if t[ip]["rc"] != 0:
            return Outcome(failure=Failure("base-verdict", "model accepts %r, parse rc %d" % (text, t[ip]["rc"])), classes=["base"])
        fails, keys, cc = [], [], {}
        hp = {1: None}
        for kind, iq, expect, desc, cl in queries:
            if kind == "step":
                if not t[iq]["p"]:
                    fails.append(Failure("stepwise-null", "stepwise navigation %r returned NULL" % [(o.d["n"], i) for o, i, _ in desc]))
                continue
        # map handle -> pointer from the getnsec steps
        for line in s.lines:
            pass
        ptr_of = {}
        for kind, iq, expect, desc, cl in queries:
            if kind == "step":
                ptr_of[iq] = t[iq]["p"]
        # handles were assigned in order of the step queries
        handle_ptr = {}
        hh = 10
        for kind, iq, expect, desc, cl in queries:
            if kind == "step":
                handle_ptr[hh] = t[iq]["p"]
                hh += 1
        for kind, iq, expect, desc, cl in queries:
            if kind == "step":
                continue
            got = t[iq]["p"]
            for c in cl:
                cc[c] = cc.get(c, 0) + 1
            nt = any(c.startswith(("broken", "title-quoted", "steps>=2")) for c in cl)
            if nt:
                keys.append(h64([text, desc]))
            if kind == "same-as":
                if expect is not None and got != t[expect]["p"]:
                    fails.append(Failure("gettsec-differs", "cfg_gettsec for %r differs from cfg_getnsec" % [(o.d["n"], i, x.title) for o, i, x in desc]))
                continue
            if kind == "sec":
                want = handle_ptr.get(expect, 0) if expect else 0
            else:
                want = t[expect]["p"] if expect is not None else 0
            if got != want:
                brk = [c for c in cl if c.startswith("broken")] or [c for c in cl if c in ("unknown-title", "unterminated-quote", "dangling-backslash",
                                                                                              "empty-qualifier", "index=size", "index=-1", "index-garbage", "index-empty-quoted", "index-wraps",
                                                                                              "qualifier-on-single")]
                if want == 0:
                    sig = "resolves-but-should-not/%s/%s" % (kind, (brk or ["?"])[0])
                elif got == 0:
                    sig = "not-found/%s/%s" % (kind, (cl or ["?"])[-1] if cl else "?")
                else:
                    sig = "wrong-target/%s" % kind
                fails.append(Failure(sig, "%s path %r -> %s, stepwise navigation -> %s (classes %r)\ntext %r" % (
                    "cfg_getsec" if kind == "sec" else "cfg_getopt", desc, got or "not found", want or "not found", cl, text)))
        if t[i0]["tree"] != t[i1]["tree"]:
            fails.append(Failure("lookups-changed-state", "dump differs after the lookups"))
        for e in eff:
            if e[0] == "set":
                _, iset, iget, isz, path = e
                if t[iset].get("rc") != 0 or t[iget].get("v") != 4242 or t[isz].get("n") != 1:
                    fails.append(Failure("setter-by-path", "cfg_setint(%r) rc=%r, stepwise read gives %r, cfg_size %r" % (path, t[iset].get("rc"), t[iget].get("v"), t[isz].get("n"))))
            else:
                _, ib, irm, ia, path, bad = e
                if t[bad].get("rc") == 0:
                    fails.append(Failure("rmsec-unknown-title-removed", "cfg_rmsec(%r) succeeded" % (path + "zz")))
                elif t[irm].get("rc") != 0 or t[ia].get("n") != t[ib].get("n") - 1:
                    fails.append(Failure("rmsec-by-path", "cfg_rmsec(%r) rc=%r, size %r -> %r" % (path, t[irm].get("rc"), t[ib].get("n"), t[ia].get("n"))))
        seen = set()
        uniq = []
        for f in fails:
            if f.sig not in seen:
                seen.add(f.sig)
                uniq.append(f)
        return Outcome(count=max(1, len(queries)), keys=keys, class_counts=cc, nontrivial=bool(keys), failure=uniq[0] if uniq else None,
                       failures=uniq[1:8], sample={"flags": flags, "text": text[:300], "paths": [q[3] for q in queries if q[0] == "opt"][:12]})

    def strategy(self, tier):
        @st.composite
        def case(draw):
            flags = draw(st.sampled_from([0, 0, 0, F_NOCASE, F_IGNORE_UNKNOWN, F_IGNORE_UNKNOWN | F_NOCASE]))
            opts = draw(schemas(nocase=bool(flags & F_NOCASE), allow_func=False, allow_ptr=False, allow_deprecated=False, allow_keystrval=False))
            toks = draw(gen_text.text_tokens(opts, flags, max_items=6, allow_unknown=False, bad_p=0.0))
            return {"schema": opts, "flags": flags, "tokens": toks}
        return case()

    def run(self, r):
        r.run_cases([{"schema": "c11", "flags": 0, "text": C11_TEXT}, {"schema": "c11", "flags": F_NOCASE, "text": C11_TEXT},
                     {"schema": "c11", "flags": F_IGNORE_UNKNOWN, "text": C11_TEXT},
                     {"schema": "c11", "flags": 0, "text": ""}], chunksize=1)
        r.run_cases(self.schema_cases(), chunksize=2)
        r.run_hypothesis(6000 if r.tier == "quick" else 100000)


PROP = C11()

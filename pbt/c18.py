"""C18 — running out of memory yields an error return, not corruption (single-failure k-sweep)."""
import os
import re

from hypothesis import strategies as st

import gen_text
from c02 import fixture_dir
from c07 import API_SCHEMA, RICH, T
from execclient import Script, hx, by_index
from runner import Failure, Outcome, h64
from schema import (HAND, emit_schema, F_COMMENTS, F_IGNORE_UNKNOWN, F_NOCASE, F_MULTI, F_TITLE, F_LIST, F_KEYSTRVAL,
                    F_NODEFAULT, CB_PARSE, CB_VALID, CB_VALID2, CB_COMMENT, CB_PRINT,
                    o_int, o_str, o_list, o_sec, o_func, o_ptr, o_float, o_bool, o_simple)

REPO_SRC = os.path.join(os.environ.get("VERIF_REPO", "/repo"), "src", "confuse.c")
_SITES = None


def site_table():
    """(func, kind, line) -> ordinal of that allocation call inside its function; also the list of all static sites"""
    global _SITES
    if _SITES is not None:
        return _SITES
    table, allsites = {}, []
    func = None
    lines = open(REPO_SRC, encoding="latin-1").read().split("\n")
    counts = {}
    for no, ln in enumerate(lines, 1):
        if ln == "{":
            for back in range(1, 5):
                prev = lines[no - 1 - back]
                if prev and not prev[0].isspace() and "(" in prev:
                    m = re.search(r"(\w+)\s*\(", prev)
                    if m:
                        func = m.group(1)
                        counts = {}
                    break
        for kind in ("malloc", "calloc", "realloc", "reallocarray", "strdup", "strndup"):
            for m in re.finditer(r"(?<![\w>.])%s\(" % kind, ln):
                if func is None or ln.lstrip().startswith(("static char *str", "*", "/*")):
                    continue
                counts[kind] = counts.get(kind, 0) + 1
                table[(func, kind, no)] = counts[kind]
                allsites.append("%s/%s#%d" % (func, kind, counts[kind]))
    _SITES = (table, allsites)
    return _SITES


def site_name(failsite):
    m = re.match(r"(\w+)/(\w+)@(\d+)", failsite or "")
    if not m:
        return "none"
    f, k, ln = m.group(1), m.group(2), int(m.group(3))
    o = site_table()[0].get((f, k, ln))
    return "%s/%s#%s" % (f, k, o if o is not None else "L%d" % ln)


WL_SCHEMA = API_SCHEMA + [
    o_int("ann", 1, 0, CB_COMMENT), o_list("float", "fl", "{1.5, 2}"), o_list("bool", "bl", "{yes}"),
    o_int("pi", 0, F_NODEFAULT, CB_PARSE), o_str("ps", None, F_NODEFAULT, CB_PARSE), o_int("vi", 1, 0, CB_VALID | CB_VALID2),
    o_str("vs", "x", 0, CB_VALID2 | CB_PRINT),
    o_sec("multi", [o_int("m", 1), o_sec("deep", [o_str("z", "zz"), o_list("str", "zl", "{a}")], F_MULTI | F_TITLE)], F_MULTI),
    o_sec("kvm", [o_str("known", "k")], F_KEYSTRVAL | F_MULTI | F_TITLE),
    o_simple("str", "ss", "init"), o_simple("int", "si", 5), o_simple("float", "sf", "1.5"), o_simple("bool", "sb", 0),
    # declared annotations together with string / list defaults and inside sections created later
    o_str("anns", "dflt", 0, CB_COMMENT), o_list("str", "annl", "{a, b}", 0, CB_COMMENT),
    o_sec("annsec", [o_str("cz", "zz", 0, CB_COMMENT), o_list("int", "cl", "{1}", 0, CB_COMMENT), o_int("ci", 3, 0, CB_COMMENT)], F_MULTI | F_TITLE),
]
HAND["c18wl"] = WL_SCHEMA


def workloads():
    fx = fixture_dir()
    good = gen_text.render(T(RICH["c07api"]))
    W = {}
    tail = [["dump", 1], ["print", 1], ["parse_buf", 1, hx("i = 1\n")], ["getint", 1, hx("i"), 0]]
    W["init-only"] = (F_COMMENTS, [])
    W["init-nocase"] = (F_NOCASE | F_IGNORE_UNKNOWN, [["parse_buf", 1, hx("I = 2\nunk { a = 1 }\nTM a { X = 2 }\n")]])
    W["parse-buf"] = (F_COMMENTS, [["parse_buf", 1, hx(good)]])
    W["parse-fp"] = (0, [["parse_fp", 1, hx(good)]])
    W["parse-file-searchpath"] = (F_COMMENTS, [
        ["searchpath", 1, hx(fx)], ["searchpath", 1, hx("~root")], ["mkfile", hx(os.path.join(fx, "wl.conf")), hx(good)],
        ["parse_file", 1, hx("wl.conf")], ["parse_buf", 1, hx("include(inc_deep5.conf)\nsingle { in { } }\n")],
        ["findfile", 1, hx("inc_ok.conf")], ["findfile", 1, hx("missing")], ["findfile", 1, hx("/etc/passwd")]])
    W["parse-file-direct"] = (0, [["mkfile", hx(os.path.join(fx, "wl2.conf")), hx(good)],
                                  ["parse_file", 1, hx(os.path.join(fx, "wl2.conf"))], ["parse_file", 1, hx("~/nonexistent")]])
    W["parse-errors"] = (F_COMMENTS, [["parse_buf", 1, hx("p = x\ntm c { q = y }\nfn(a, b, {")],
                                      ["parse_buf", 1, hx("include(inc_bad.conf)\n")], ["parse_buf", 1, hx("include(inc_self.conf)\n")],
                                      ["parse_buf", 1, hx("# c\nil = {1, x}")]])
    W["parse-more"] = (F_COMMENTS, [["parse_buf", 1, hx(
        "multi { m = 2 deep a { z = q zl += {b, c} } deep a { } deep b { } }\nmulti { }\nkvm t { known = a other = b c = d }\n"
        "kvm t { e = f }\nfl = {1, 2.5}\nbl += {no, on}\npi = abc\nps = text\nvi = 4\n# annotation for s\ns = v\n/* for il */ il = {7}\n")]])
    W["setters"] = (F_COMMENTS, [
        ["setint", 1, hx("i"), 0, hx("3")], ["setfloat", 1, hx("f"), 0, hx("2.5")], ["setbool", 1, hx("b"), 0, hx("1")],
        ["setstr", 1, hx("s"), 0, hx("v")], ["setstr", 1, hx("s"), 0, hx("w")], ["setstr", 1, hx("sl"), 5, hx("gap")],
        ["setint", 1, hx("il"), 2, hx("30")], ["setlist", 1, hx("sl"), "s", 3, hx("m"), hx("n"), hx("o")],
        ["addlist", 1, hx("sl"), "s", 2, hx("p"), hx("q")], ["setlist", 1, hx("il"), "i", 2, "4", "5"],
        ["addlist", 1, hx("il"), "i", 1, "6"], ["setlist", 1, hx("fl"), "f", 1, "1.25"], ["addlist", 1, hx("bl"), "b", 1, "0"],
        ["setmulti", 1, hx("sl"), 2, hx("g1"), hx("g2")], ["setmulti", 1, hx("il"), 2, hx("1"), hx("bad")],
        ["setmulti", 1, hx("pl"), 2, hx("m1"), hx("m2")], ["setmulti", 1, hx("i"), 1, hx("9")],
        ["setcomment", 1, hx("sl"), hx("annotation")], ["setcomment", 1, hx("sl"), hx("again")],
        ["getopt", 1, hx("il"), 50], ["setopt", 1, 50, hx("77")], ["osetint", 50, 0, hx("1")],
        ["getopt", 1, hx("p"), 51], ["setopt", 1, 51, hx("ptrtext")], ["setint", 1, hx("vi"), 0, hx("777")],
        ["setstr", 1, hx("vs"), 0, hx("veto")], ["setstr", 1, hx("vs"), 0, hx("fine")]])
    W["sections"] = (F_COMMENTS, [
        ["addtsec", 1, hx("tm"), hx("n1"), 60], ["addtsec", 1, hx("tm"), hx("n2"), 61], ["addtsec", 1, hx("tm"), hx("n1"), 62],
        ["setstr", 1, hx("tm=n1|y"), 0, hx("deep")], ["setint", 1, hx("tm='n2'|x"), 0, hx("4")],
        ["getsec", 1, hx("tm=n2"), 63], ["getopt", 1, hx("tm=n1|zl"), 64], ["gettsec", 1, hx("tm"), hx("n2"), 65],
        ["size", 1, hx("tm")], ["getstr", 1, hx("tm='n\\\\1'|y"), 0],
        ["parse_buf", 1, hx("multi { deep a { } }\nmulti { }\n")], ["getopt", 1, hx("multi=1|deep=a|z"), 66],
        ["getsec", 1, hx("multi=0|deep=a"), 67], ["rmsec", 1, hx("multi=0|deep=a")], ["rmnsec", 1, hx("multi"), 0],
        ["rmtsec", 1, hx("tm"), hx("n1")], ["rmtsec", 1, hx("tm"), hx("nope")], ["rmsec", 1, hx("tm=n2")],
        ["rmsec", 1, hx("single")], ["setvalidate", 1, hx("tm|x"), 1], ["setvalidate2", 1, hx("multi|deep|z"), 1],
        ["printfunc", 1, hx("s"), 1], ["filter", 1, 2, hx("i"), hx("tm")], ["print", 1, 2], ["getopt", 1, hx("il"), 68],
        ["oprint", 68, 1], ["nprintvar", 68, 0]])
    W["simple-options"] = (F_COMMENTS, [
        ["parse_buf", 1, hx("ss = fromtext\nsi = 9\nsf = 2.5\nsb = on\n# note\nss = again\n")], ["setstr", 1, hx("ss"), 0, hx("v")],
        ["setint", 1, hx("si"), 0, hx("3")], ["setmulti", 1, hx("ss"), 2, hx("g1"), hx("g2")], ["setmulti", 1, hx("ss"), 3, hx("g1"), hx("g2"), "~"],
        ["setmulti", 1, hx("si"), 2, hx("1"), hx("bad")], ["getopt", 1, hx("ss"), 70], ["setopt", 1, 70, hx("viasetopt")],
        ["getstr", 1, hx("ss"), 0], ["getint", 1, hx("si"), 0], ["setcomment", 1, hx("ss"), hx("c")], ["oprint", 70, 1]])
    W["declared-annotations"] = (F_COMMENTS, [
        ["parse_buf", 1, hx("annsec a { cz = x }\nannsec b { }\nanns = y\n")], ["addtsec", 1, hx("annsec"), hx("c"), 71],
        ["rmtsec", 1, hx("annsec"), hx("a")], ["getcomment", 1, hx("anns")], ["getcomment", 1, hx("annsec=b|cz")]])
    W["tilde"] = (0, [["tilde", hx("~")], ["tilde", hx("~/x")], ["tilde", hx("~root")], ["tilde", hx("~root/x/y")],
                      ["tilde", hx("~nosuchuser/x")], ["tilde", hx("plain")], ["tilde", hx("")], ["searchpath", 1, hx("~/dir")],
                      ["searchpath", 1, hx("~nosuchuser")], ["findfile", 1, hx("x")]])
    return {k: (fl, ops + tail) for k, (fl, ops) in W.items()}


class C18:
    id = "C18"
    level = "fault_enumeration"
    variants = ("asan",)
    rule = ("for each workload (fixed set calling every public entry point, incl. one over CFG_SIMPLE_* options; thorough adds generated texts and API "
            "histories) the number N of allocation requests issued by confuse.c is measured, then the workload is re-run "
            "once for every k in 1..N with request k failing (exhaustive over k). Oracle: child not killed (no abort, "
            "signal, sanitizer report), every call returns, the context can afterwards be dumped, printed, parsed into "
            "and freed, allocation balance and stream count zero after cfg_free, no pointer value released twice or not "
            "at all; and when the call inside which the request failed returns the same (successful) verdict as in the failure-free run, every later "
            "result, dump and print equals that run ('completes or reports failure'). A case is one (workload, k); distinct non-trivial = distinct failing sites func/kind#ordinal hit, "
            "plus distinct (site, workload) pairs counted in extra")
    assumptions = [
        "single allocation failures only, injected at allocation requests made by confuse.c (malloc, calloc, realloc, "
        "reallocarray, strdup, strndup) through a force-included shim; scanner-internal allocations are out of scope",
        "only the call paths of the executed workloads are covered; sites never reached are listed under never_reached",
    ]
    coverage_extra = {}

    def build(self, case):
        fx = fixture_dir()
        if "workload" in case:
            flags, ops = workloads()[case["workload"]]
            schema = "c18wl"
        else:
            flags, ops, schema = case["flags"], case["ops"], case["schema"]
        s = Script()
        emit_schema(s, 0, HAND[schema])
        s.add("cwd", hx(fx))
        s.add("failalloc", case["k"])
        s.add("init", 1, 0, flags)
        for op in ops:
            s.add(*op)
        s.add("free", 1)
        ia = s.add("allocstat")
        return s, ia

    _ref = {}

    @staticmethod
    def norm(e):
        """a trace entry without addresses, errno and sequence numbers (p: only whether a handle came back)"""
        out = {k: v for k, v in e.items() if k not in ("i", "errno", "oom", "diag")}
        if "p" in out:
            out["p"] = bool(out["p"])
        if "cb" in out:
            out["cb"] = [{k: v for k, v in c.items() if k != "seq"} for c in out["cb"]]
        return out

    @staticmethod
    def verdict(e):
        """what a call reports through its return value; None for calls that return nothing"""
        for k in ("rc", "ok", "p"):
            if k in e:
                return (k, bool(e[k]) if k == "p" else e[k])
        return None

    SUCCESS = {"rc": 0, "ok": 1, "p": True}
    MUTATORS = {"init", "parse_buf", "parse_fp", "parse_file", "setint", "setfloat", "setbool", "setstr", "setlist", "addlist", "setmulti", "setopt",
                "osetint", "setcomment", "addtsec", "rmsec", "rmnsec", "rmtsec", "searchpath"}

    def silent(self, case, trace, get_ex, site):
        """'the call either completes or reports failure through its return value': when the call during which the
        allocation failed returns the verdict of the failure-free run, everything observed afterwards equals that run"""
        key = case.get("workload") or h64(repr((case["schema"], case["flags"], case["ops"])))
        if key not in C18._ref:
            s0, _ = self.build(dict(case, k=0))
            r0 = get_ex("asan", 10).run(s0)
            C18._ref[key] = r0.trace if r0.clean else None
        ref = C18._ref[key]
        if ref is None or len(ref) != len(trace):
            return None
        for n, (e, e0) in enumerate(zip(trace, ref)):
            if not e.get("oom"):
                continue
            v, v0 = self.verdict(e), self.verdict(e0)
            if e["c"] not in self.MUTATORS or v is None or v != v0 or v0[1] != self.SUCCESS[v0[0]]:
                return None
            for f, f0 in zip(trace[n + 1:], ref[n + 1:]):
                if f.get("c") == "allocstat":
                    continue
                if self.norm(f) != self.norm(f0):
                    return Failure("oom/silently-incomplete/%s/%s" % (e["c"], site),
                                   "request %d (%s) failed inside step %d '%s', which returned %r like the failure-free run, but afterwards "
                                   "'%s' (step %d) gives\n  %s\ninstead of\n  %s" % (case["k"], site, e["i"], e["c"], v, f.get("c"), f.get("i"),
                                                                                    str(self.norm(f))[:700], str(self.norm(f0))[:700]))
            return None
        return None

    def check_case(self, case, get_ex):
        s, ia = self.build(case)
        r = get_ex("asan", 10).run(s)
        t = by_index(r.trace)
        fail = None
        site = "none"
        wl = case.get("workload", "generated")
        if r.clean:
            a = t[ia]
            site = site_name(a["failsite"])
            fail = self.silent(case, r.trace, get_ex, site)
            if fail is not None:
                pass
            elif a["live"] != 0:
                fail = Failure("oom/leak/%s" % site, "%d blocks still allocated after cfg_free (failing request %d at %s)" %
                               (a["live"], case["k"], site))
            elif a["streams"] != 0:
                fail = Failure("oom/stream-leak/%s" % site, "streams=%d" % a["streams"])
            elif a["double_release"] or a["ptr_live"]:
                fail = Failure("oom/ptr/%s" % site, "pointer values: live %d, released twice %d" % (a["ptr_live"], a["double_release"]))
        else:
            d = r.death()
            # the failing site is not in the trace when the child died; re-derive it from the stderr-less information:
            # run the same script without sanitizer death is impossible, so use the allocation frames of the report
            fr = [f for f in r.frames() if f.startswith(("cfg_", "call_", "parse_title"))]
            last = r.trace[-1].get("c") if r.trace else "none"
            m = re.search(r"VT-FAILSITE (\S+)", r.stderr.decode("latin-1", "replace"))
            site = site_name(m.group(1)) if m else "unknown-site"
            fail = Failure("oom/die:%s/%s" % (d.split(":")[0] if d.startswith("asan") else d, site),
                           "child died (%s) after '%s' with request %d failing at %s; frames %s\n%s" %
                           (d, last, case["k"], site, fr[:6], r.stderr.decode("latin-1")[:2000]))
        return Outcome(classes=[wl], nontrivial=site != "none", key=site, failure=fail,
                       sample={"workload": wl, "k": case["k"], "site": site})

    def measure(self, r, case):
        import runner
        runner._worker_init(r.build_dir, self.id, r.tier, r.seed)
        s, ia = self.build(dict(case, k=0))
        res = runner.get_ex("asan", 10).run(s)
        t = by_index(res.trace)
        if not res.clean:
            r.stats.failures.append(Failure("workload-broken", "workload %r does not run cleanly without fault: %s\n%s" %
                                            (case, res.death(), res.stderr.decode("latin-1")[:1500]), dict(case, k=0)))
            return 0
        return t[ia]["req"]

    def run(self, r):
        cases = []
        total = {}
        for name in workloads():
            n = self.measure(r, {"workload": name})
            total[name] = n
            cases.extend({"workload": name, "k": k} for k in range(1, n + 1))
        r.run_cases(cases, chunksize=40)
        r.exhaustive = True
        r.stats.extra.update({"requests/" + k: v for k, v in total.items()})
        self.generated(r, 40 if r.tier == "quick" else 1500)
        allsites = sorted(set(site_table()[1]))
        hit = [x for x in allsites if h64(x) in r.stats.nontrivial]
        self.coverage_extra = {"static_allocation_sites_in_confuse_c": len(allsites), "sites_hit": hit,
                               "never_reached": [x for x in allsites if x not in hit]}

    def generated(self, r, nworkloads):
        import random
        from c07 import PROP as C07P
        rnd = random.Random(r.seed)
        alpha = C07P.alphabet()
        cases = []
        for w in range(nworkloads):
            ops = [rnd.choice(alpha)[1] for _ in range(rnd.randint(2, 6))]
            base = {"schema": "c07api", "flags": rnd.choice([0, F_COMMENTS]), "ops": ops + [["dump", 1], ["print", 1]]}
            n = self.measure(r, base)
            cases.extend(dict(base, k=k) for k in range(1, n + 1))
        r.run_cases(cases, chunksize=100)

    def strategy(self, tier):
        return None


PROP = C18()

"""C07 — everything acquired is released exactly once on every path."""
import itertools
import os

from hypothesis import strategies as st

import gen_text
from c02 import fixture_dir
from execclient import Script, hx, by_index
from runner import Failure, Outcome, h64
from schema import (HAND, emit_schema, F_COMMENTS, F_IGNORE_UNKNOWN, F_NOCASE, F_MULTI, F_TITLE, F_LIST, F_KEYSTRVAL,
                    o_int, o_str, o_list, o_sec, o_func, o_ptr, o_float, o_bool, o_simple, CB_VALID, CB_PARSE)

PUNCT = {"=", "+=", "{", "}", "(", ")", ","}


def T(text):
    """tiny DSL: blank-separated words; punctuation as is; dq:word / sq:word force quoting; NL = newline;
    #:word = hash comment; /*:word = block comment"""
    toks = []
    for w in text.split():
        if w in PUNCT:
            toks.append(["p", w])
        elif w == "NL":
            toks.append(["w", "\n"])
        elif w.startswith("dq:"):
            toks.append(["s", w[3:].replace("_", " "), "dq"])
        elif w.startswith("sq:"):
            toks.append(["s", w[3:].replace("_", " "), "sq"])
        elif w.startswith("#:"):
            toks.append(["c", " " + w[2:].replace("_", " "), "hash"])
        elif w.startswith("/*:"):
            toks.append(["c", " " + w[3:].replace("_", " ") + " ", "block"])
        else:
            toks.append(["s", w, "bare"])
    return toks


API_SCHEMA = [
    o_int("i", 5), o_str("s", "dflt"), o_list("int", "il", "{10, 20}"), o_list("str", "sl", "{a, b}"),
    o_list("str", "se", None), o_ptr("p"), o_ptr("pl", F_LIST), o_float("f", "1.5"), o_bool("b", 0),
    o_sec("tm", [o_int("x", 7), o_str("y", "why"), o_list("str", "zl", "{p, q}"), o_ptr("q")], F_MULTI | F_TITLE),
    o_sec("single", [o_int("x", 7), o_list("int", "zl", "{1, 2}"), o_sec("in", [o_str("w", "w0")], F_MULTI)]),
    o_sec("kv", [], F_KEYSTRVAL), o_func("include", "include"), o_func("fn"),
    o_simple("str", "ss", "init"), o_simple("int", "si", 5),      # CFG_SIMPLE_*: the strings belong to the application
]
HAND["c07api"] = API_SCHEMA

# option tables whose defaults cannot all be stored: a new section instance fails half way through its initialisation
# (a default text that does not parse, a default the conversion refuses, a callback that refuses the default)
_pre = lambda: [o_str("a", "x"), o_list("str", "l", "{p, q}"), o_sec("in", [o_str("w", "w0"), o_list("int", "wl", "{1, 2}")]), o_float("f", "2.5")]
HAND["c07bad"] = [
    o_int("i", 5), o_str("s", "dflt"),
    o_sec("bm", _pre() + [o_list("int", "bad", "{1, 2")], F_MULTI | F_TITLE),
    o_sec("bv", _pre() + [o_list("int", "bad", "{1, x}"), o_str("after", "z")], F_MULTI),
    o_sec("outer", [o_int("k", 1), o_sec("bm", _pre() + [o_list("float", "bad", "{1.5, }}")], F_MULTI)]),
    o_sec("cbm", _pre() + [o_list("int", "vl", "{8080, 80}", 0, CB_VALID), o_list("str", "pl", "{u, v}", 0, CB_PARSE), o_str("after", "z")], F_MULTI | F_TITLE),
]
HAND["c07badroot"] = [o_str("a", "x"), o_list("str", "l", "{p, q}"), o_sec("single", _pre() + [o_list("int", "bad", "{1, 2")]), o_int("i", 5)]
HAND["c07badroot2"] = [o_str("a", "x"), o_list("str", "l", "{p, q}"), o_sec("in", [o_str("w", "w0")]), o_list("int", "bad", "{1, x}"), o_int("i", 5)]

RICH = {
    "mixed": "#:note NL i = 3 NL /*:block_note il = { 1 , 2 , 3 } NL il += { 4 } NL sl = dq:one_two NL s = sq:it NL "
             "tm a { x = 1 zl = { 5 , } y = dq:q } NL tm b { } NL tm a { zl += 7 } NL single { x = 2 y = z } NL "
             "fn ( a , dq:b_c , ) NL fn ( ) NL p = v1 NL p = v2 NL kv { k1 = v k2 = dq:w k1 = again } NL "
             "include ( inc_ok.conf ) NL f = 2.5 NL b = yes NL",
    "c07api": "#:ann NL il = { 1 , 2 } NL sl += { c , d } NL p = one NL pl = { a , b , c } NL pl += d NL p = two NL "
              "tm a { x = 1 q = pa zl = { } } NL tm b { q = pb } NL tm a { q = pa2 } NL "
              "single { x = 9 in { w = w1 } in { } zl += 3 } NL kv { k = v } NL fn ( a , b ) NL include ( inc_ok.conf ) NL "
              "#:later NL s = dq:str NL se = { x , y } NL",
    "ptrs": "p = a NL p = b NL pl = { a , b } NL pl = { c } NL pn = z NL sec t { q = 1 ql = { x , y } } NL sec t { q = 2 } NL "
            "sec u { ql += w } NL",
    "funcs": "fn ( a , b , c ) NL include ( inc_ok.conf ) NL sec { x = 2 g ( q ) include ( inc_x.conf ) } NL sec { include ( inc_nonl.conf ) } NL sl = { a , b } NL "
             "include ( inc_deep2.conf ) NL i = 9 NL",
    "sections": "single { x = 1 } NL multi { x = 2 } NL multi { zl = { 9 } } NL tm a { y = b } NL tm a { } NL tu t { } NL nd { x = 3 } NL "
                "nd { } NL ts t { zl += 3 } NL nest { d = 2 deeper a { e = 3 el = { x , y } } deeper a { } } NL mnest { deeper z { } } NL",
    "keyval": "kv { a = 1 b = dq:two a = three } NL kvn { z = 1 } NL kvm t { known = x other = y } NL kvm t { more = z } NL i = 4 NL",
    "deprecated": "old = 3 NL gone = 4 NL oldl = { b , c } NL gonel = { 2 } NL i = 1 NL last = q NL",
    "callbacks": "pi = abc NL ps = str NL pil = { a , bb , ccc } NL vi = 3 NL vsl = { a , b } NL pf = x NL pb = yy NL vs { x = 2 } NL",
}
CORRUPT = [["p", "{"], ["p", "}"], ["p", "("], ["p", ")"], ["p", "="], ["p", "+="], ["p", ","], ["s", "zz", "bare"],
           ["s", "", "dq"], ["raw", "\"unterminated"], ["raw", "'unterminated"], ["raw", "\"bad \\400 escape\""]]


class C07:
    id = "C07"
    level = "fault_enumeration"
    variants = ("asan",)
    rule = ("(a) error-point enumeration: every rich base text (hand-written per schema; function calls, lists, nested and "
            "titled sections, includes, pointer options, annotations, free-form keys) is cut after every token and has "
            "every token replaced by each of 12 corruptions, with and without search path / CFGF_COMMENTS, via buffer and "
            "file; Hypothesis adds generated texts with random cuts/corruptions; (b) API histories: all sequences up to "
            "depth 2 (quick) / 3 (thorough) over a fixed alphabet of calls (incl. CFG_SIMPLE_* string and integer options) plus random histories up to length 10; "
            "(c) option tables whose defaults cannot all be stored (unparsable / unconvertible default, refusing callback): new section instances by text and API, failing cfg_init. "
            "Oracle after cfg_free: allocation balance of confuse.c+lexer.c = 0, open streams = 0, descriptor count as "
            "before, every pointer value released exactly once, no sanitizer report. Non-trivial = abort point inside a "
            "function-call argument list, list, nested section, title or included file, or a history with remove-after-"
            "add / setmulti on an annotated option / a search path; distinct = distinct case hashes")
    assumptions = [
        "allocation balance is measured by a force-included counting shim over confuse.c and lexer.c (libc-internal blocks "
        "such as FILE objects are covered by the stream counter and the /proc/self/fd count instead)",
        "LeakSanitizer is not used in forked children (it stalled at design time); counters are the oracle",
    ]

    def build(self, case):
        fx = fixture_dir()
        s = Script()
        emit_schema(s, 0, HAND[case["schema"]])
        s.add("cwd", hx(fx))
        i0 = s.add("allocstat")
        s.add("init", 1, 0, case.get("flags", 0))
        if case.get("searchpath"):
            s.add("searchpath", 1, hx(fx))
            s.add("searchpath", 1, hx(os.path.join(fx, "inc_dir")))
        marks = []
        if "tokens" in case:
            text = gen_text.render(case["tokens"])
            if case.get("via") == "file":
                fn = os.path.join(fx, "case_input.conf")
                s.add("mkfile", hx(fn), hx(text))
                marks.append(s.add("parse_file", 1, hx(fn)))
            else:
                marks.append(s.add("parse_buf", 1, hx(text)))
            if case.get("then_print"):
                s.add("print", 1)
        for op in case.get("ops", []):
            if op and isinstance(op[0], list):
                for line in op:
                    marks.append(s.add(*line))
            else:
                marks.append(s.add(*op))
        s.add("free", 1)
        i1 = s.add("allocstat")
        return s, i0, i1, marks

    def check_case(self, case, get_ex):
        s, i0, i1, marks = self.build(case)
        r = get_ex("asan", 5).run(s)
        t = by_index(r.trace)
        classes = list(case.get("classes", [])) or ["generated"]
        nontrivial = bool(case.get("nontrivial", True))
        fail = None
        if not r.clean:
            d = r.death()
            fr = [f for f in r.frames() if f.startswith(("cfg_", "q", "trim_", "call_", "parse_title"))]
            top = [f for f in fr if f not in ("cfg_free", "cfg_free_value")][:1] or fr[:1] or ["?"]
            last = None
            for e in r.trace:
                last = e
            fail = Failure("die/%s/%s" % (d, top[0]), "child died: %s after '%s'\n%s" %
                           (d, last.get("c") if last else None, r.stderr.decode("latin-1")[:2500]))
        else:
            a0, a1 = t[i0], t[i1]
            if a1["live"] != 0:
                where = "parse" if "tokens" in case else "api"
                fail = Failure("leak/%s" % case.get("leakclass", where), "%d blocks still allocated after cfg_free" % a1["live"])
            elif a1["streams"] != 0 or a1["fds"] != a0["fds"]:
                fail = Failure("stream-leak", "streams=%d fds %d -> %d" % (a1["streams"], a0["fds"], a1["fds"]))
            elif a1["ptr_live"] != 0:
                fail = Failure("ptr-not-released", "%d pointer values never handed to the free callback (made %d)" %
                               (a1["ptr_live"], a1["ptr_made"]))
            elif a1["double_release"] != 0:
                fail = Failure("ptr-double-release", "%d pointer values released twice" % a1["double_release"])
            elif a1["incptr"] != 0:
                fail = Failure("include-stack-not-unwound", "cfg_include_stack_ptr = %d after the parse ended" % a1["incptr"])
        sample = {"schema": case["schema"], "flags": case.get("flags", 0)}
        if "tokens" in case:
            sample["text"] = gen_text.render(case["tokens"])[:300]
        if "ops" in case:
            sample["ops"] = case["ops"][:12]
        return Outcome(classes=classes, nontrivial=nontrivial, failure=fail, sample=sample)

    # ---------------------------------------------------------------------------------------
    @staticmethod
    def context_of(toks, idx):
        """which construct the idx-th meaningful token is in: args / list / section depth / title"""
        depth_sec = 0
        stack = []
        prev = None
        cls = "top"
        for j, t in enumerate(toks[:idx + 1]):
            if t[0] != "p":
                prev = t
                continue
            if t[1] == "(":
                stack.append("args")
            elif t[1] == ")" and stack:
                stack.pop()
            elif t[1] == "{":
                stack.append("list" if prev and prev[0] == "p" and prev[1] in ("=", "+=") else "sec")
            elif t[1] == "}" and stack:
                stack.pop()
            prev = t
        if stack:
            cls = stack[-1] + ("%d" % sum(1 for x in stack if x == "sec") if stack[-1] == "sec" else "")
        return cls

    # annotations pending in front of undeclared items (both flags set), at every level
    UNKNOWN_RICH = ("#:c1 NL unk = 1 NL #:c2 NL i = 2 NL /*:c3 unk2 += { a , b } NL #:c4 NL unk3 t { x = 1 } NL s = v NL #:c5 NL unkf ( a ) NL "
                    "#:c6 NL tm a { #:c7 NL zz = 1 NL x = 2 NL #:c8 NL zz2 { } } NL #:c9 NL unk4 { } NL #:c10 NL il = { 1 } NL #:c11 NL")

    def error_points(self, tier):
        cases = []
        for name, text in list(RICH.items()) + [("mixed", self.UNKNOWN_RICH)]:
            toks = T(text)
            mean = [i for i, t in enumerate(toks) if t[0] in ("s", "p")]
            variants = [(0, False, "buf"), (F_COMMENTS, True, "buf")]
            if tier == "thorough":
                variants += [(F_COMMENTS | F_NOCASE, False, "file"), (F_IGNORE_UNKNOWN, True, "file")]
            if text is self.UNKNOWN_RICH:
                variants = [(F_COMMENTS | F_IGNORE_UNKNOWN, False, "buf"), (F_COMMENTS | F_IGNORE_UNKNOWN | F_NOCASE, True, "file")]
            for flags, sp, via in variants:
                base = {"schema": name, "flags": flags, "searchpath": sp, "via": via}
                cases.append(dict(base, tokens=toks, classes=["complete-text"], nontrivial=True, then_print=True))
                for n, i in enumerate(mean):
                    ctx = self.context_of(toks, i)
                    cut = toks[:i + 1]
                    cases.append(dict(base, tokens=cut, classes=["cut/" + ctx], nontrivial=ctx != "top", leakclass="abort-in-" + ctx))
                    for c in CORRUPT:
                        if c == toks[i]:
                            continue
                        mut = toks[:i] + [c] + toks[i + 1:]
                        cases.append(dict(base, tokens=mut, classes=["corrupt/" + ctx], nontrivial=ctx != "top",
                                          leakclass="abort-in-" + ctx))
        return cases

    def bad_defaults(self):
        """sections whose default initialisation fails part way (text and API), and contexts whose cfg_init() fails"""
        cases = []
        texts = ["bm t { }", "bm t { a = 1 }", "i = 1\nbm t { }\ni = 2\n", "bv { }", "bv { a = y }\nbv { }", "outer { bm { } }",
                 "outer { k = 2\n bm { a = q } }\nbv { }\n", "s = v\nouter { k = 3 }\nbm u { l = { r } }\n", "cbm t { }\n"]
        for flags in (0, F_COMMENTS):
            for via in ("buf", "file"):
                for tx in texts:
                    cases.append({"schema": "c07bad", "flags": flags, "via": via, "tokens": [["raw", tx]], "then_print": True,
                                  "classes": ["bad-default/text"], "nontrivial": True, "leakclass": "section-defaults-fail"})
            for ops in ([["addtsec", 1, hx("bm"), hx("n")]], [["addtsec", 1, hx("bm"), hx("n")], ["addtsec", 1, hx("bm"), hx("n")]],
                        [["parse_buf", 1, hx("outer { k = 4 }")], ["addtsec", 1, hx("outer|bm"), hx("n")], ["print", 1]],
                        [["addtsec", 1, hx("cbm"), hx("ok")], ["addtsec", 1, hx("bm"), hx("n")], ["rmtsec", 1, hx("cbm"), hx("ok")]]):
                cases.append({"schema": "c07bad", "flags": flags, "ops": ops, "classes": ["bad-default/api"], "nontrivial": True,
                              "leakclass": "section-defaults-fail"})
            # a callback refuses one of the defaults of the new instance (the k-th invocation)
            for k in range(1, 6):
                for mk in ([["addtsec", 1, hx("cbm"), hx("n")]], [["parse_buf", 1, hx("i = 2\ncbm t { a = 1 }\n")]],
                           [["addtsec", 1, hx("cbm"), hx("m")], ["parse_buf", 1, hx("cbm t { }\ncbm m { }\n")]]):
                    cases.append({"schema": "c07bad", "flags": flags, "ops": [["cbfail", k]] + mk + [["cbfail", 0], ["print", 1]],
                                  "classes": ["bad-default/callback"], "nontrivial": True, "leakclass": "section-defaults-fail"})
            for sc in ("c07badroot", "c07badroot2"):
                cases.append({"schema": sc, "flags": flags, "ops": [], "classes": ["bad-default/cfg_init"], "nontrivial": True,
                              "leakclass": "cfg_init-defaults-fail"})
        return cases

    # API histories ------------------------------------------------------------------------
    def alphabet(self):
        fx = fixture_dir()
        good = gen_text.render(T(RICH["c07api"]))
        gf = os.path.join(fx, "c07_good.conf")
        if not os.path.exists(gf):
            with open(gf, "w", encoding="latin-1") as f:
                f.write(good)
        return [
            ("parse-good", ["parse_buf", 1, hx(good)]),
            ("parse-good-stream", ["parse_fp", 1, hx(good)]),
            ("parse-good-file", ["parse_file", 1, hx(os.path.join(fx, "c07_good.conf"))]),
            ("parse-include-sections", ["parse_buf", 1, hx("include(inc_single.conf)\nsingle { x = 4 }\n")]),
            ("parse-bad-args", ["parse_buf", 1, hx("p = x\ntm c { q = y }\nfn(a, b, {")]),
            ("parse-bad-nested", ["parse_buf", 1, hx("pl = {u, v}\ntm d { q = z zl = {1, 2\n")]),
            ("parse-bad-include", ["parse_buf", 1, hx("tm e { }\ninclude(inc_bad.conf)\n")]),
            ("parse-include", ["parse_buf", 1, hx("include(inc_deep2.conf)\n")]),
            ("searchpath", ["searchpath", 1, hx(fx)]),
            ("setint", ["setint", 1, hx("i"), 0, hx("3")]),
            ("setstr", ["setstr", 1, hx("s"), 0, hx("v")]),
            ("setstr-list-gap", ["setstr", 1, hx("sl"), 3, hx("w")]),
            ("setstr-null", ["setstr", 1, hx("s"), 0, "~"]),
            ("setlist", ["setlist", 1, hx("sl"), "s", 2, hx("m"), hx("n")]),
            ("addlist", ["addlist", 1, hx("sl"), "s", 1, hx("o")]),
            ("setmulti-good", ["setmulti", 1, hx("sl"), 2, hx("g1"), hx("g2")]),
            ("setmulti-bad", ["setmulti", 1, hx("il"), 2, hx("1"), hx("bad")]),
            ("setmulti-ptr", ["setmulti", 1, hx("pl"), 2, hx("m1"), hx("m2")]),
            ("setcomment", ["setcomment", 1, hx("sl"), hx("annotation")]),
            ("setcomment-il", ["setcomment", 1, hx("il"), hx("annotation")]),
            ("addtsec", ["addtsec", 1, hx("tm"), hx("n")]),
            ("addtsec-a", ["addtsec", 1, hx("tm"), hx("a")]),
            ("rmtsec", ["rmtsec", 1, hx("tm"), hx("a")]),
            ("rmnsec", ["rmnsec", 1, hx("tm"), 0]),
            ("rmsec", ["rmsec", 1, hx("tm=n")]),
            ("rmsec-single", ["rmsec", 1, hx("single")]),
            ("set-in-sec", ["setstr", 1, hx("tm=a|y"), 0, hx("deep")]),
            ("setmulti-in-sec", ["setmulti", 1, hx("tm=a|q"), 1, hx("ptrval")]),
            ("print", ["print", 1]),
            ("dump", ["dump", 1]),
            ("ptr-setopt-refused", [["getopt", 1, hx("p"), 9], ["cbfail", 1], ["setopt", 1, 9, hx("zz")], ["cbfail", 0]]),
            ("ptr-setopt", [["getopt", 1, hx("p"), 9], ["setopt", 1, 9, hx("fresh")]]),
            ("ptr-list-setmulti-refused", [["cbfail", 2], ["setmulti", 1, hx("pl"), 3, hx("r1"), hx("r2"), hx("r3")], ["cbfail", 0]]),
            ("ptr-in-sec-setopt-refused", [["getopt", 1, hx("tm=a|q"), 9], ["cbfail", 1], ["setopt", 1, 9, hx("zz")], ["cbfail", 0]]),
            ("setstr-null-list", ["setstr", 1, hx("sl"), 0, "~"]),
            ("parse-read-error", ["parse_fp_fail", 1, hx(good), 120]),
            ("parse-missing-file", ["parse_file", 1, hx(os.path.join(fx, "c07_no_such_file.conf"))]),
            ("parse-missing-file-tilde", ["parse_file", 1, hx("~/c07_no_such_file.conf")]),
            ("parse-missing-file-relative", ["parse_file", 1, hx("c07_no_such_file.conf")]),
            ("parse-directory", ["parse_file", 1, hx(fx)]),
            ("simple-parse", ["parse_buf", 1, hx("ss = fromtext\nsi = 9\nss = again\n")]),
            ("simple-setstr", ["setstr", 1, hx("ss"), 0, hx("v")]),
            ("simple-setmulti-good", ["setmulti", 1, hx("ss"), 2, hx("g1"), hx("g2")]),
            ("simple-setmulti-refused", ["setmulti", 1, hx("ss"), 3, hx("g1"), hx("g2"), "~"]),
            ("simple-int-setmulti-refused", ["setmulti", 1, hx("si"), 2, hx("1"), hx("bad")]),
        ]

    def histories(self, depth):
        alpha = self.alphabet()
        cases = []
        for d in range(1, depth + 1):
            for seq in itertools.product(range(len(alpha)), repeat=d):
                names = [alpha[i][0] for i in seq]
                nt = (any(n.startswith("rm") for n in names) and any(n.startswith(("add", "parse-good")) for n in names)) or \
                     ("searchpath" in names) or ("setcomment-il" in names and "setmulti-bad" in names) or len(set(names)) >= 2
                for flags in (F_COMMENTS,):
                    cases.append({"schema": "c07api", "flags": flags, "ops": [alpha[i][1] for i in seq],
                                  "classes": ["history-%d" % d], "nontrivial": bool(nt)})
        return cases

    def strategy(self, tier):
        alpha = self.alphabet()
        names = sorted(RICH.keys())

        @st.composite
        def case(draw):
            if draw(st.booleans()):
                ops = draw(st.lists(st.sampled_from(alpha), min_size=3, max_size=10))
                return {"schema": "c07api", "flags": draw(st.sampled_from([0, F_COMMENTS, F_COMMENTS | F_NOCASE])),
                        "ops": [o[1] for o in ops], "classes": ["history-random"], "nontrivial": True}
            sc = draw(st.sampled_from(names))
            fl = draw(st.sampled_from([0, F_COMMENTS, F_IGNORE_UNKNOWN, F_COMMENTS | F_NOCASE, F_COMMENTS | F_IGNORE_UNKNOWN]))
            toks = draw(gen_text.text_tokens(HAND[sc], fl, max_items=6, bad_p=0.02))
            if fl & F_COMMENTS:
                for _ in range(draw(st.integers(0, 3))):
                    toks = list(toks)
                    toks.insert(draw(st.integers(0, len(toks))), ["c", draw(st.sampled_from([" note", "", "x"])), draw(st.sampled_from(["hash", "block"]))])
            toks = draw(gen_text.mutate_tokens(toks, 2))
            if draw(st.booleans()) and toks:
                toks = toks[:draw(st.integers(0, len(toks)))]
            return {"schema": sc, "flags": fl, "tokens": toks, "searchpath": draw(st.booleans()),
                    "via": draw(st.sampled_from(["buf", "file"])), "classes": ["generated-text"], "nontrivial": len(toks) > 8}
        return case()

    def run(self, r):
        r.run_cases(self.error_points(r.tier), chunksize=50)
        r.run_cases(self.bad_defaults(), chunksize=10)
        r.run_cases(self.histories(2 if r.tier == "quick" else 3), chunksize=100)
        r.exhaustive = True
        r.run_hypothesis(20000 if r.tier == "quick" else 300000)


PROP = C07()
